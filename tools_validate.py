#!/opt/veriftools/pyvenv/bin/python
"""Validate MANIFEST.json and evidence/*.json against the given schemas."""
import json, sys, glob, jsonschema
ok = True
m = json.load(open('/verif/MANIFEST.json'))
jsonschema.validate(m, json.load(open('/root/.vp/MANIFEST.schema.json')))
es = json.load(open('/root/.vp/EVIDENCE.schema.json'))
props = [json.loads(l)['id'] for l in open('/verif/properties.jsonl')]
claimed = [c['property_id'] for c in m['checks']]
na = [c['property_id'] for c in m.get('not_applicable', [])]
for p in props:
    if p not in claimed and p not in na:
        print('property neither claimed nor not_applicable:', p); ok = False
for c in m['checks']:
    f = c['evidence_file']
    try:
        ev = json.load(open(f)); jsonschema.validate(ev, es)
        assert ev['level'] == c['level_claimed']['category'], (ev['level'], c['level_claimed']['category'])
        print(c['property_id'], 'ok', ev['tier'], 'evals', ev['coverage'].get('evaluations'), 'distinct', ev['coverage'].get('distinct_nontrivial'), 'wall', round(ev['wall_s'], 1))
    except Exception as e:
        print(c['property_id'], 'EVIDENCE PROBLEM', f, str(e)[:300]); ok = False
sys.exit(0 if ok else 1)
