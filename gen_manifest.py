#!/usr/bin/env python3
"""Regenerates MANIFEST.json. A property is claimed only when its monitor exists
(harness/src/monitors/<id>.rs); all others go to not_applicable with the reason."""
import json, os
ROOT = os.path.dirname(os.path.abspath(__file__))
T = {
 'C01': ('exploration', 'reference-model runtime monitor (generated well-formed files; byte-equality oracle)',
   'Runs the real reader+writer on every fixture, a deterministic sweep over every (major,minor) version and every distinct layout x shape matrix, and seeded random well-formed histories with random field bits; oracle is byte equality, well-formedness certified by an independent reference parser. Held-on-what-was-run, not a proof.',
   'Trusts the hand-transcribed spec tables (pinned against real fixtures) to define well-formed; field bit patterns are sampled.', '3/C01'),
}
def entry(pid):
    cat, tech, text, note, ref = T[pid]
    return {
        'property_id': pid,
        'quick_cmd': f'./check {pid} quick',
        'thorough_cmd': f'./check {pid} thorough',
        'evidence_file': f'/verif/evidence/{pid}.json',
        'replay_cmd_template': f'./check {pid} --replay {{path}}',
        'engine': 'pvh',
        'level_claimed': {'category': cat, 'text': text, 'design_ref': ref},
        'level_note': note,
        'technique': tech,
    }
props = [json.loads(l)['id'] for l in open(os.path.join(ROOT, 'properties.jsonl'))]
built = [p for p in props if p in T and os.path.exists(os.path.join(ROOT, 'harness/src/monitors', p.lower() + '.rs'))]
m = {
 'version': 1,
 'setup_cmd': './setup.sh',
 'hooks': {
   'guard': '--cfg peppi_verif',
   'enable': 'none needed: every property is observed at the public API boundary; no hook commits exist',
   'baseline_off_cmd': 'cd /repo && cargo test --workspace --no-fail-fast --offline',
   'source_commits': [],
   'add_only': True,
 },
 'engines': [{'name': 'pvh', 'path': '/verif/harness', 'serves_properties': built,
   'kind_free_text': 'Rust harness: structure-aware generator + independent reference model + fault/fragmentation-injecting byte source + per-property runtime monitors, sharded over crash-isolating worker processes; sanitizer lanes (Miri/ASan/valgrind) reuse the same workloads'}],
 'checks': [entry(p) for p in built],
 'not_applicable': [{'property_id': p, 'reason': 'monitor not built yet (work in progress; the runtime-monitoring design for it is in DESIGN.md section 3)'} for p in props if p not in built],
 'notes': 'All checks: exit 0 = held on everything explored (KNOWN-FINDING lines for listed open findings), exit 1 + VIOLATION line = unlisted violation, exit 2 + HARNESS-ERROR = the harness itself failed (never a verdict). VERIF_SEED selects the random part of each workload.',
}
json.dump(m, open(os.path.join(ROOT, 'MANIFEST.json'), 'w'), indent=1)
print('claimed', built)
