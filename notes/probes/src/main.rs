mod gen;
use gen::*;
use std::io::Cursor;
use peppi::io::{slippi, peppi as pp};
use std::panic::catch_unwind;

fn rt(name:&str, bytes:&[u8]) {
    let r = catch_unwind(|| {
        let g = match slippi::read(Cursor::new(bytes), None) { Ok(g)=>g, Err(e)=>{ println!("{name}: read ERR {e}"); return; } };
        let mut out = vec![];
        match slippi::write(&mut out, &g) { Ok(())=>{}, Err(e)=>{ println!("{name}: write ERR {e}"); return; } }
        println!("{name}: frames {} slp roundtrip eq {} ({} vs {})", g.frames.len(), out == bytes, out.len(), bytes.len());
    });
    if r.is_err() { println!("{name}: PANIC in slp rt"); }
    for comp in [None, Some(arrow2::io::ipc::write::Compression::LZ4), Some(arrow2::io::ipc::write::Compression::ZSTD)] {
      let b = bytes.to_vec();
      let r = catch_unwind(move || {
        let g = slippi::read(Cursor::new(&b[..]), None).unwrap();
        let mut buf = vec![];
        if let Err(e) = pp::write(&mut buf, g, Some(&pp::ser::Opts{compression: comp})) { println!("  slpp write ERR {e}"); return; }
        let g2 = match pp::read(&mut &buf[..], None) { Ok(g)=>g, Err(e)=>{ println!("  slpp read ERR {e}"); return; } };
        let mut out = vec![];
        slippi::write(&mut out, &g2).unwrap();
        println!("  slpp({comp:?}) roundtrip eq {}", out == b);
      });
      if r.is_err() { println!("  PANIC in slpp rt {comp:?}"); }
    }
}

fn main() {
    std::panic::set_hook(Box::new(|i| { println!("    [panic: {}]", i.to_string().lines().next().unwrap_or("")); }));
    let mut rng = Rng(0x1234567);
    let which = std::env::args().nth(1).unwrap_or("all".into());
    if which=="all" || which=="versions" {
      for (ma,mi) in [(0,1),(0,2),(1,0),(1,2),(1,3),(1,4),(1,5),(2,0),(2,1),(2,2),(3,0),(3,2),(3,5),(3,6),(3,7),(3,8),(3,9),(3,10),(3,11),(3,12),(3,13),(3,14),(3,15),(3,16)] {
        let spec = Spec{ v:(ma,mi,0), ports: vec![(0,false),(2,true)], frames: simple_frames(20,3), gecko_blocks: 2, ends:1, metadata: Some(b"U\x01aSU\x02hi".to_vec()), extra:0 };
        rt(&format!("v{ma}.{mi}"), &build(&spec,&mut rng));
      }
    }
    if which=="shapes2" {
      let mk = |v:(u8,u8,u8)| Spec{ v, ports: vec![(0,false),(1,false)], frames: simple_frames(10,2), gecko_blocks: 1, ends:1, metadata: Some(vec![]), extra:0 };
      for v in [(2,2,0),(3,7,0),(3,16,0)] {
        let mut s=mk(v); s.ports=vec![(1,true)]; s.frames=(0..6).map(|i| FrameSpec{id:-123+i, present: vec![i!=2 && i!=3, i>0 && i!=3], items: (i as usize)%2}).collect(); rt(&format!("all-absent frame + follower absent first {:?}",v), &build(&s,&mut rng));
        let mut s=mk(v); s.ports=vec![(0,true),(1,true),(2,true),(3,true)]; s.frames=(0..6).map(|i| FrameSpec{id:-123+i, present: (0..8).map(|c| (i+c)%3!=0).collect(), items:2}).collect(); rt(&format!("4xICs {:?}",v), &build(&s,&mut rng));
        let mut s=mk(v); s.ports=vec![]; s.frames=(0..3).map(|i| FrameSpec{id:-123+i, present: vec![], items:1}).collect(); rt(&format!("no ports {:?}",v), &build(&s,&mut rng));
        let mut s=mk(v); s.ports=vec![(3,false)]; s.frames=(0..3).map(|i| FrameSpec{id:-123+i, present: vec![false], items:0}).collect(); rt(&format!("never present {:?}",v), &build(&s,&mut rng));
      }
      for v in [(0,1,0),(1,0,0),(2,1,0)] {
        let mut s=mk(v); s.ports=vec![(1,true),(3,false)]; s.frames=(0..6).map(|i| FrameSpec{id:-123+i, present: vec![true, i>0, i%2==0], items:0}).collect(); rt(&format!("old follower absent first {:?}",v), &build(&s,&mut rng));
        let mut s=mk(v); s.ports=vec![(0,false),(1,false),(2,false),(3,false)]; s.frames=(0..6).map(|i| FrameSpec{id:-123+i, present: vec![true,true,true,true], items:0}).collect(); rt(&format!("old 4p {:?}",v), &build(&s,&mut rng));
        let mut s=mk(v); s.frames=vec![]; rt(&format!("old zero frames {:?}",v), &build(&s,&mut rng));
      }
    }
    if which=="all" || which=="shapes" {
      let mk = |v:(u8,u8,u8)| Spec{ v, ports: vec![(0,false),(1,false)], frames: simple_frames(10,2), gecko_blocks: 1, ends:1, metadata: Some(vec![]), extra:0 };
      let mut s = mk((3,16,0)); s.metadata=None; rt("no-metadata 3.16", &build(&s,&mut rng));
      let mut s = mk((3,16,0)); s.frames=vec![]; rt("zero-frames 3.16", &build(&s,&mut rng));
      let mut s = mk((3,16,0)); s.ends=0; rt("no-end 3.16", &build(&s,&mut rng));
      let mut s = mk((3,16,0)); s.ends=2; rt("double-end 3.16", &build(&s,&mut rng));
      let mut s = mk((3,16,0)); s.gecko_blocks=0; rt("no-gecko 3.16", &build(&s,&mut rng));
      let mut s = mk((1,0,0)); s.ends=0; rt("no-end 1.0", &build(&s,&mut rng));
      // absent characters
      for v in [(1,0,0),(2,0,0),(2,2,0),(3,0,0),(3,16,0)] {
        let mut s = mk(v); s.ports=vec![(0,false),(1,true),(3,false)]; s.frames = (0..12).map(|i| FrameSpec{id:-123+i, present: vec![true, i%3!=1, i<4||i>7, i<6], items:0}).collect();
        rt(&format!("absent chars {:?}",v), &build(&s,&mut rng));
      }
      // rollbacks
      let mut s = mk((3,16,0)); s.frames = [-123,-122,-121,-122,-121,-120,-120,-119].iter().map(|&id| FrameSpec{id, present: vec![true,true], items:1}).collect(); rt("rollbacks 3.16", &build(&s,&mut rng));
    }
}
