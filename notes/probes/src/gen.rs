// quick synthetic .slp builder for probing (not framework code)
pub fn ver_gte(v:(u8,u8), m:(u8,u8))->bool{ v.0>m.0 || (v.0==m.0 && v.1>=m.1) }
pub fn start_size(v:(u8,u8))->usize{
  if ver_gte(v,(3,14)){760} else if ver_gte(v,(3,12)){701} else if ver_gte(v,(3,11)){700} else if ver_gte(v,(3,9)){584}
  else if ver_gte(v,(3,7)){420} else if ver_gte(v,(2,0)){418} else if ver_gte(v,(1,5)){417} else if ver_gte(v,(1,3)){416}
  else if ver_gte(v,(1,0)){352} else {320}
}
pub fn pre_size(v:(u8,u8))->usize{ let mut s=4+2+ 4+2+8+4+8+8+4+4+2+8; if ver_gte(v,(1,2)){s+=1} if ver_gte(v,(1,4)){s+=4} if ver_gte(v,(3,15)){s+=1} s}
pub fn post_size(v:(u8,u8))->usize{ let mut s=4+2+ 1+2+8+4+4+4+4; if ver_gte(v,(0,2)){s+=4} if ver_gte(v,(2,0)){s+=5+4+1+2+1+1} if ver_gte(v,(2,1)){s+=1} if ver_gte(v,(3,5)){s+=20} if ver_gte(v,(3,8)){s+=4} if ver_gte(v,(3,11)){s+=4} if ver_gte(v,(3,16)){s+=4} s}
pub fn fstart_size(v:(u8,u8))->usize{ let mut s=4+4; if ver_gte(v,(3,10)){s+=4} s}
pub fn fend_size(v:(u8,u8))->usize{ let mut s=4; if ver_gte(v,(3,7)){s+=4} s}
pub fn item_size(v:(u8,u8))->usize{ let mut s=4+ 2+1+4+8+8+2+4+4; if ver_gte(v,(3,2)){s+=4} if ver_gte(v,(3,6)){s+=1} if ver_gte(v,(3,16)){s+=2} s}
pub fn end_size(v:(u8,u8))->usize{ if ver_gte(v,(3,13)){6} else if ver_gte(v,(2,0)){2} else {1} }

pub struct FrameSpec { pub id:i32, pub present: Vec<bool>, pub items: usize }
pub struct Spec {
  pub v:(u8,u8,u8), pub ports: Vec<(u8,bool)>, pub frames: Vec<FrameSpec>,
  pub gecko_blocks: usize, pub ends: usize, pub metadata: Option<Vec<u8>>, pub extra: usize,
}
pub struct Rng(pub u64);
impl Rng { pub fn next(&mut self)->u64{ self.0^=self.0<<13; self.0^=self.0>>7; self.0^=self.0<<17; self.0 } pub fn byte(&mut self)->u8{ (self.next()>>24) as u8 } }

pub fn build(spec:&Spec, rng:&mut Rng)->Vec<u8>{
  let v=(spec.v.0,spec.v.1);
  let x=spec.extra;
  let mut sizes: Vec<(u8,usize)> = vec![(0x36,start_size(v)+x),(0x37,pre_size(v)+x),(0x38,post_size(v)+x),(0x39,end_size(v)+x)];
  if ver_gte(v,(2,2)){ sizes.push((0x3A,fstart_size(v)+x)); }
  if ver_gte(v,(3,0)){ sizes.push((0x3B,item_size(v)+x)); sizes.push((0x3C,fend_size(v)+x)); }
  if ver_gte(v,(3,3)) && spec.gecko_blocks>0 { sizes.push((0x3D, spec.gecko_blocks*512-7)); sizes.push((0x10,516)); }
  let mut raw=vec![0x35u8,(sizes.len()*3+1) as u8];
  for (c,s) in &sizes { raw.push(*c); raw.extend_from_slice(&(*s as u16).to_be_bytes()); }
  // game start
  raw.push(0x36);
  let mut st=vec![0u8; start_size(v)+x];
  st[0]=spec.v.0; st[1]=spec.v.1; st[2]=spec.v.2;
  for p in 0..6 { st[0x64+36*p+1]=3; }
  for (port,ics) in &spec.ports { let o=0x64+36*(*port as usize); st[o]= if *ics {14} else {2}; st[o+1]=0; }
  if ver_gte(v,(3,12)) { st[0x2BC]=1; }
  raw.extend_from_slice(&st);
  // gecko
  if ver_gte(v,(3,3)) && spec.gecko_blocks>0 { let total=spec.gecko_blocks*512-7; for b in 0..spec.gecko_blocks { raw.push(0x10); for _ in 0..512 { raw.push(rng.byte()); }
      let sz = std::cmp::min(512, total - b*512); raw.extend_from_slice(&(sz as u16).to_be_bytes()); raw.push(0x3D); raw.push((b+1==spec.gecko_blocks) as u8); } }
  let chars: Vec<(u8,bool)> = spec.ports.iter().flat_map(|(p,ics)| { let mut v=vec![(*p,false)]; if *ics { v.push((*p,true)); } v }).collect();
  let fill=|raw:&mut Vec<u8>, n:usize, rng:&mut Rng|{ for _ in 0..n { raw.push(rng.byte()); } };
  for f in &spec.frames {
    if ver_gte(v,(2,2)) { raw.push(0x3A); raw.extend_from_slice(&f.id.to_be_bytes()); fill(&mut raw, fstart_size(v)+x-4, rng); }
    for (i,(p,fol)) in chars.iter().enumerate() { if f.present[i] { raw.push(0x37); raw.extend_from_slice(&f.id.to_be_bytes()); raw.push(*p); raw.push(*fol as u8); fill(&mut raw, pre_size(v)+x-6, rng); } }
    if ver_gte(v,(3,0)) { for _ in 0..f.items { raw.push(0x3B); raw.extend_from_slice(&f.id.to_be_bytes()); fill(&mut raw, item_size(v)+x-4, rng); } }
    for (i,(p,fol)) in chars.iter().enumerate() { if f.present[i] { raw.push(0x38); raw.extend_from_slice(&f.id.to_be_bytes()); raw.push(*p); raw.push(*fol as u8); fill(&mut raw, post_size(v)+x-6, rng); } }
    if ver_gte(v,(3,0)) { raw.push(0x3C); raw.extend_from_slice(&f.id.to_be_bytes()); fill(&mut raw, fend_size(v)+x-4, rng); }
  }
  for _ in 0..spec.ends { raw.push(0x39); let mut e=vec![0u8; end_size(v)+x]; e[0]=2; if e.len()>1 { e[1]=255; } if e.len()>=6 { e[2]=0; e[3]=1; e[4]=0xff; e[5]=0xff; } raw.extend_from_slice(&e); }
  let mut out = vec![0x7b,0x55,0x03,0x72,0x61,0x77,0x5b,0x24,0x55,0x23,0x6c];
  out.extend_from_slice(&(raw.len() as u32).to_be_bytes());
  out.extend_from_slice(&raw);
  if let Some(m)=&spec.metadata { out.extend_from_slice(b"U\x08metadata{"); out.extend_from_slice(m); out.push(b'}'); }
  out.push(b'}');
  out
}
pub fn simple_frames(n:usize, nchars:usize)->Vec<FrameSpec>{ (0..n).map(|i| FrameSpec{ id:-123+i as i32, present: vec![true;nchars], items: i%3 }).collect() }
