use std::io::Cursor;
use peppi::io::{slippi, peppi as pp};
use peppi::game::shift_jis::MeleeString;
fn main(){
  let b=std::fs::read("/repo/tests/data/v3.16.slp").unwrap();
  let g=slippi::read(Cursor::new(&b[..]),Some(&slippi::de::Opts{compute_hash:true,..Default::default()})).unwrap();
  let mut buf=vec![]; pp::write(&mut buf,g,None).unwrap(); std::fs::write("/root/scratch/v316.slpp",&buf).unwrap();
  for bytes in [&[0x80u8][..], &[0xA0], &[0xFD], &[0x5C], &[0x7E], &[0xB1], &[0x81,0x40], &[0x81,0x20], &[0x81], &[0xF0,0x40], &[0x87,0x40], &[0xED,0x40], &[0xFA,0x40], &[0x41,0,0xFF,0x81], &[0x81,0x5F], &[0x81,0x7F], &[0xEB,0x40], &[0xA1], &[0xDF], &[0xE0,0x40], &[0xFC,0x4B], &[0xFC,0x4C]] {
    println!("{:02x?} -> {:?}", bytes, MeleeString::try_from(bytes).map(|m| m.0.chars().map(|c| format!("U+{:04X}", c as u32)).collect::<Vec<_>>()).map_err(|e| e.to_string()));
  }
}
