use peppi::game::shift_jis::MeleeString;
use std::collections::HashMap;
fn main(){
  let t=std::fs::read("/root/scratch/cp932.tbl").unwrap();
  let mut one:HashMap<u16,u32>=HashMap::new(); let mut two:HashMap<u16,u32>=HashMap::new();
  for c in t.chunks(7){ let k=c[0]; let b=u16::from_le_bytes([c[1],c[2]]); let u=u32::from_le_bytes([c[3],c[4],c[5],c[6]]); if k==1 {one.insert(b,u);} else {two.insert(b,u);} }
  let dec=|bs:&[u8]| MeleeString::try_from(bs).ok().map(|m| m.0.chars().map(|c| c as u32).collect::<Vec<_>>());
  let mut diffs=vec![];
  for b in 1..=255u16 { let got=dec(&[b as u8]); let want=one.get(&b).map(|u| vec![*u]); let lead=(0x81..=0x9f).contains(&b)||(0xe0..=0xfc).contains(&b); if lead { if got.is_some(){ diffs.push(format!("lone lead {b:02x} -> {got:x?}")); } continue; } if got!=want { diffs.push(format!("1B {b:02x}: peppi {got:x?} cp932 {want:x?}")); } }
  let (mut agree, mut both_err, mut d2)=(0,0,0);
  for hi in (0x81..=0x9fu16).chain(0xe0..=0xfc) { for lo in 1..=255u16 { let k=hi*256+lo; let got=dec(&[hi as u8, lo as u8]); let want=two.get(&k).map(|u| vec![*u]);
      if got==want { if got.is_some(){agree+=1}else{both_err+=1} } else { d2+=1; if d2<=40 { diffs.push(format!("2B {k:04x}: peppi {got:x?} cp932 {want:x?}")); } } } }
  println!("2-byte agree {agree} both_err {both_err} differ {d2}");
  for d in diffs { println!("{d}"); }
}
