use std::sync::mpsc;
fn main(){
  let (tx,rx)=mpsc::channel();
  std::thread::spawn(move || { let me=std::fs::read_link("/proc/thread-self").unwrap(); tx.send(me).unwrap(); loop { std::thread::sleep(std::time::Duration::from_millis(1000)); } });
  let me=rx.recv().unwrap(); println!("task path {:?}", me);
  for _ in 0..3 { std::thread::sleep(std::time::Duration::from_millis(400)); let s=std::fs::read_to_string(format!("/proc/{}/syscall", me.display())).unwrap(); println!("syscall: {}", s.split_whitespace().next().unwrap()); }
  // busy thread
  let (tx,rx)=mpsc::channel();
  std::thread::spawn(move || { let me=std::fs::read_link("/proc/thread-self").unwrap(); tx.send(me).unwrap(); let mut x=0u64; loop { x=x.wrapping_mul(3).wrapping_add(1); std::hint::black_box(x); } });
  let me=rx.recv().unwrap();
  for _ in 0..2 { std::thread::sleep(std::time::Duration::from_millis(200)); let s=std::fs::read_to_string(format!("/proc/{}/syscall", me.display())).unwrap(); println!("busy syscall: {}", s.trim()); }
}
