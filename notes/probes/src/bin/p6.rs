#[path="../gen.rs"] mod gen;
use gen::*;
use std::io::Cursor;
use peppi::io::{slippi, peppi as pp};
use std::panic::catch_unwind;

// parse raw into events (code, payload) using payload table
fn split(b:&[u8])->(Vec<u8>, Vec<(u8,Vec<u8>)>, Vec<u8>, [u16;256]) {
  let raw_len = u32::from_be_bytes(b[11..15].try_into().unwrap()) as usize;
  let raw=&b[15..15+raw_len];
  let psize=raw[1] as usize; let mut sizes=[0u16;256];
  let mut i=2; while i<1+psize { sizes[raw[i] as usize]=u16::from_be_bytes([raw[i+1],raw[i+2]]); i+=3; }
  let mut evs=vec![]; let mut pos=1+psize;
  while pos<raw.len(){ let c=raw[pos]; let s=sizes[c as usize] as usize; evs.push((c,raw[pos+1..pos+1+s].to_vec())); pos+=1+s; }
  (raw[..1+psize].to_vec(), evs, b[15+raw_len..].to_vec(), sizes)
}
fn join(payloads:&[u8], evs:&[(u8,Vec<u8>)], tail:&[u8])->Vec<u8>{
  let mut raw=payloads.to_vec(); for (c,p) in evs { raw.push(*c); raw.extend_from_slice(p); }
  let mut out = vec![0x7b,0x55,0x03,0x72,0x61,0x77,0x5b,0x24,0x55,0x23,0x6c]; out.extend_from_slice(&(raw.len() as u32).to_be_bytes()); out.extend_from_slice(&raw); out.extend_from_slice(tail); out
}
fn dump(g:&peppi::game::immutable::Game)->String{
  let v=g.start.slippi.version; let mut s=format!("{:?}|{:?}|{:?}|{:?}|{:?}|", g.start, g.end, g.metadata, g.gecko_codes, g.quirks);
  for i in 0..g.frames.len(){ s+=&format!("{:?};", g.frames.transpose_one(i,v)); }
  for p in &g.frames.ports { s+=&format!("L{:?}F{:?}", p.leader.validity, p.follower.as_ref().map(|f| f.validity.clone())); }
  s
}
fn main(){
  std::panic::set_hook(Box::new(|i| { println!("    [panic: {}]", i.to_string().replace("\n"," | ").chars().take(200).collect::<String>()); }));
  let mut rng=Rng(42);
  let mk = |v:(u8,u8,u8)| Spec{ v, ports: vec![(0,false),(1,true)], frames: simple_frames(5,3), gecko_blocks: 1, ends:1, metadata: Some(b"U\x01aSU\x02hi".to_vec()), extra:0 };
  for v in [(1,0,0),(2,2,0),(3,16,0)] {
    let b=build(&mk(v),&mut rng);
    let base=slippi::read(Cursor::new(&b[..]),None).unwrap(); let dbase=dump(&base);
    let (mut pl, evs, tail, _)=split(&b);
    // declare unknown 0x50 size 7
    pl[1]+=3; pl.extend_from_slice(&[0x50,0,7]);
    let mut bad=0; let mut panics=0; let mut errs=0;
    for pos in 1..=evs.len() { // after game start (index 0)
      let mut e=evs.clone(); e.insert(pos,(0x50,vec![9;7])); e.insert(pos,(0x50,vec![1;7]));
      let nb=join(&pl,&e,&tail);
      match catch_unwind(|| slippi::read(Cursor::new(&nb[..]),None)) { Ok(Ok(g))=>{ if dump(&g)!=dbase { bad+=1; if bad<3 { println!("  diff at pos {pos} (prev ev {:#x}, next {:?})", e[pos-1].0, e.get(pos+2).map(|x|x.0)); } } }, Ok(Err(er))=>{errs+=1; if errs<3 {println!("  err at {pos}: {er}");}}, Err(_)=>panics+=1 }
    }
    println!("unknown-event {:?}: positions {} diffs {bad} errs {errs} panics {panics}", v, evs.len());
    // C17: junk after game end within raw; non-canonical order; write → reread
    let (pl, evs, tail, _)=split(&b);
    let mut e=evs.clone(); e.push((0x39, evs.last().unwrap().1.clone())); // dup end
    let mut raw_extra=join(&pl,&e,&tail);
    // junk: replace dup end by junk bytes of other length: emulate by adding 3 junk bytes inside raw
    let (pl2, evs2, tail2, _)=split(&b);
    let mut rawj=pl2.clone(); for (c,p) in &evs2 { rawj.push(*c); rawj.extend_from_slice(p);} rawj.extend_from_slice(&[1,2,3]);
    let mut outj = vec![0x7b,0x55,0x03,0x72,0x61,0x77,0x5b,0x24,0x55,0x23,0x6c]; outj.extend_from_slice(&(rawj.len() as u32).to_be_bytes()); outj.extend_from_slice(&rawj); outj.extend_from_slice(&tail2);
    for (name,bytes) in [("junk-after-end",outj),("dup-end",raw_extra.clone())] {
      let r=catch_unwind(|| { let g=slippi::read(Cursor::new(&bytes[..]),None).map_err(|e|e.to_string())?; let mut w=vec![]; slippi::write(&mut w,&g).map_err(|e|e.to_string())?; let declared=u32::from_be_bytes(w[11..15].try_into().unwrap()) as usize;
         let g2=slippi::read(Cursor::new(&w[..]),None).map_err(|e| format!("reread: {e}"))?; let mut w2=vec![]; slippi::write(&mut w2,&g2).unwrap();
         // actual raw length: find by parsing: total - 15 - tail
         Ok::<_,String>((declared, w.len(), dump(&g)==dump(&g2), w==w2, g.quirks)) });
      println!("C17 {name} {:?}: {:?}", v, r.ok());
    }
    raw_extra.clear();
  }
  // non canonical order in frame (v3.16): posts before items, pre order swapped between ports
  {
    let b=build(&mk((3,16,0)),&mut rng);
    let (pl, evs, tail, _)=split(&b);
    // find first frame: events after gecko; reorder: move items after posts
    let mut e=evs.clone();
    let mut i=0; while i<e.len() { if e[i].0==0x3A { let mut j=i+1; while e[j].0!=0x3C { j+=1; } let seg:&mut [(u8,Vec<u8>)]=&mut e[i+1..j]; seg.sort_by_key(|x| match x.0 {0x37=>0,0x38=>1,_=>2}); i=j; } i+=1; }
    let nb=join(&pl,&e,&tail);
    let r=catch_unwind(|| { let g=slippi::read(Cursor::new(&nb[..]),None).map_err(|e|e.to_string())?; let mut w=vec![]; slippi::write(&mut w,&g).map_err(|e|e.to_string())?; let g2=slippi::read(Cursor::new(&w[..]),None).map_err(|e| format!("reread: {e}"))?; let mut w2=vec![]; slippi::write(&mut w2,&g2).unwrap(); Ok::<_,String>((dump(&g)==dump(&g2), w==w2, w==b)) });
    println!("C17 reorder: {:?}", r.ok());
  }
}
