#[path="../gen.rs"] mod gen;
use gen::*;
use std::io::{Cursor, Read};
use peppi::io::{slippi, peppi as pp};
use peppi::game::Game as _;
use std::panic::catch_unwind;

struct Frag<'a>{ inner:&'a [u8], rng: Rng, max: usize, total: usize }
impl<'a> Read for Frag<'a>{ fn read(&mut self, buf:&mut [u8])->std::io::Result<usize>{ if buf.is_empty(){return Ok(0)} let n = 1 + (self.rng.next() as usize % self.max); let n=n.min(buf.len()); let k=self.inner.read(&mut buf[..n])?; self.total+=k; Ok(k) } }
impl<'a> std::io::Seek for Frag<'a>{ fn seek(&mut self, pos: std::io::SeekFrom)->std::io::Result<u64>{ match pos { std::io::SeekFrom::Current(n)=>{ let n=n as usize; if n>self.inner.len(){ return Err(std::io::Error::new(std::io::ErrorKind::Other,"seek past end")) } self.inner=&self.inner[n..]; self.total+=n; Ok(self.total as u64)}, _=>unimplemented!() } } }

fn frames_eq(a:&peppi::game::immutable::Game, b:&peppi::game::immutable::Game)->bool{
  if a.frames.len()!=b.frames.len(){return false}
  let v=a.start.slippi.version;
  (0..a.frames.len()).all(|i| format!("{:?}",a.frames.transpose_one(i,v))==format!("{:?}",b.frames.transpose_one(i,v)))
}

fn main() {
    std::panic::set_hook(Box::new(|i| { println!("    [panic: {}]", i.to_string().replace("\n"," | ")); }));
    let mut rng = Rng(0x9876);
    let mk = |v:(u8,u8,u8)| Spec{ v, ports: vec![(0,false),(1,true)], frames: simple_frames(6,3), gecko_blocks: 1, ends:1, metadata: Some(b"U\x01aSU\x02hi".to_vec()), extra:0 };
    // c. future versions with extra bytes
    for (v,extra) in [((3,17,0),0),((3,17,0),3),((4,0,0),5),((3,16,0),2),((10,0,0),1)] {
      let mut s=mk(v); s.extra=extra;
      let b=build(&s,&mut rng);
      let r=catch_unwind(|| slippi::read(Cursor::new(&b[..]),None).map(|g| { let mut o=vec![]; let w=slippi::write(&mut o,&g).map_err(|e|e.to_string()); (g.frames.len(), w) }).map_err(|e|e.to_string()));
      println!("future {:?} extra {}: {:?}", v, extra, r.ok());
    }
    // e. skip frames / hash
    for (name, s) in [("plain", mk((3,16,0))), ("double-end", {let mut s=mk((3,16,0)); s.ends=2; s}), ("no-meta", {let mut s=mk((3,16,0)); s.metadata=None; s}), ("v1.0", mk((1,0,0))), ("v2.0", mk((2,0,0))), ("no-gecko",{let mut s=mk((3,16,0)); s.gecko_blocks=0; s}), ("3 gecko",{let mut s=mk((3,16,0)); s.gecko_blocks=3; s})] {
      let b=build(&s,&mut rng);
      let full = slippi::read(Cursor::new(&b[..]), Some(&slippi::de::Opts{compute_hash:true, ..Default::default()})).unwrap();
      let want = format!("xxh3:{:016x}", xxhash_rust::xxh3::xxh3_64(&b));
      for hash in [false,true] {
        let r=catch_unwind(|| slippi::read(Cursor::new(&b[..]), Some(&slippi::de::Opts{skip_frames:true, compute_hash:hash, debug:None})));
        match r { Ok(Ok(g))=> println!("skip {name} hash={hash}: start_eq {} end_eq {} meta_eq {} frames {} gecko {:?} quirks {:?} hash {:?} (full {:?} want {want})", g.start==full.start, g.end==full.end, g.metadata==full.metadata, g.frames.len(), g.gecko_codes.as_ref().map(|x|x.bytes.len()), g.quirks, g.hash, full.hash),
          Ok(Err(e))=>println!("skip {name} hash={hash}: ERR {e}"), Err(_)=>println!("skip {name} hash={hash}: PANIC") }
      }
      // fragmented hashing
      let fr = Frag{inner:&b[..], rng:Rng(7), max:7, total:0};
      let g = slippi::read(fr, Some(&slippi::de::Opts{compute_hash:true, ..Default::default()})).unwrap();
      println!("  frag hash eq {}", g.hash.as_deref()==Some(want.as_str()));
    }
    // f. incremental API under fragmentation
    {
      let b=build(&mk((3,16,0)),&mut rng);
      let one = slippi::read(Cursor::new(&b[..]),None).unwrap();
      let mut fr = Frag{inner:&b[..], rng:Rng(9), max:5, total:0};
      let size = slippi::de::parse_header(&mut fr, None).unwrap() as usize;
      let mut st = slippi::de::parse_start(&mut fr, None).unwrap();
      println!("after start: bytes_read {} consumed {} (hdr 15)", st.bytes_read(), fr.total);
      let mut n=0;
      loop { let c = slippi::de::parse_event(&mut fr, &mut st, None).unwrap(); n+=1; if st.bytes_read()+15 != fr.total { println!("MISMATCH at event {n}: {} vs {}", st.bytes_read()+15, fr.total); } if c==0x39 || st.bytes_read()>=size { break; } }
      println!("events {n} frames {} len() {}", st.frames().len(), st.len());
    }
    // h. rollbacks
    for ids in [vec![-123,-122,-122,-121], vec![5,5,5], vec![-123,100000,-123], vec![i32::MAX-200], vec![i32::MAX]] {
      let mut s=mk((3,16,0)); s.frames = ids.iter().map(|&id| FrameSpec{id, present: vec![true,true,true], items:0}).collect();
      let b=build(&s,&mut rng);
      let r=catch_unwind(|| { let g=slippi::read(Cursor::new(&b[..]),None).unwrap(); (g.frames.rollbacks(peppi::frame::Rollbacks::ExceptFirst), g.frames.rollbacks(peppi::frame::Rollbacks::ExceptLast)) });
      println!("rollbacks {:?}: {:?}", ids, r.ok());
    }
}
