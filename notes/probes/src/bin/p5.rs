#[path="../gen.rs"] mod gen;
use gen::*;
use std::io::Cursor;
use peppi::io::{slippi, peppi as pp};
fn main() {
    let mut rng = Rng(0x1234567);
    let nf: usize = std::env::args().nth(1).map(|s| s.parse().unwrap()).unwrap_or(5);
    let s = Spec{ v:(3,16,0), ports: vec![(0,false),(1,true)], frames: simple_frames(nf,3), gecko_blocks: 1, ends:1, metadata: Some(b"U\x01aSU\x02hi".to_vec()), extra:0 };
    let b = build(&s,&mut rng);
    let t=std::time::Instant::now();
    let g = slippi::read(Cursor::new(&b[..]), Some(&slippi::de::Opts{compute_hash:true, ..Default::default()})).unwrap();
    println!("read ok {:?} {:?}", g.hash, t.elapsed());
    let mut out=vec![]; slippi::write(&mut out,&g).unwrap(); println!("slp eq {} {:?}", out==b, t.elapsed());
    let _ = g.frames.rollbacks(peppi::frame::Rollbacks::ExceptLast);
    let _ = g.frames.transpose_one(0, g.start.slippi.version);
    let mut buf=vec![]; pp::write(&mut buf, g, None).unwrap(); println!("slpp written {} {:?}", buf.len(), t.elapsed());
    let g2 = pp::read(&mut &buf[..], None).unwrap(); let mut out=vec![]; slippi::write(&mut out,&g2).unwrap(); println!("slpp eq {} {:?}", out==b, t.elapsed());
}
