#[path="../gen.rs"] mod gen;
use gen::*;
use std::io::Cursor;
use peppi::io::{slippi, peppi as pp};
use std::panic::catch_unwind;

struct EofCounter<'a>{ inner:&'a [u8], post_eof: std::sync::Arc<std::sync::atomic::AtomicUsize> }
impl<'a> std::io::Read for EofCounter<'a> { fn read(&mut self, buf:&mut [u8])->std::io::Result<usize>{ use std::io::Read; let n=self.inner.read(buf)?; if n==0 && !buf.is_empty() { let c=self.post_eof.fetch_add(1,std::sync::atomic::Ordering::SeqCst); if c>=3 { return Err(std::io::Error::new(std::io::ErrorKind::Other,"SPIN")); } } Ok(n) } }
fn main() {
    std::panic::set_hook(Box::new(|i| { println!("    [panic: {}]", i.to_string().replace("\n"," | ")); }));
    let mut rng = Rng(0x1234567);
    let which = std::env::args().nth(1).unwrap();
    let mk = |v:(u8,u8,u8)| Spec{ v, ports: vec![(0,false),(1,true)], frames: simple_frames(6,3), gecko_blocks: 1, ends:1, metadata: Some(b"U\x01aSU\x02hi".to_vec()), extra:0 };
    match which.as_str() {
      "trunc_slpp" => {
        let comp = match std::env::args().nth(2).as_deref() { Some("lz4")=>Some(arrow2::io::ipc::write::Compression::LZ4), Some("zstd")=>Some(arrow2::io::ipc::write::Compression::ZSTD), _=>None };
        let bytes = build(&mk((3,16,0)), &mut rng);
        let g = slippi::read(Cursor::new(&bytes[..]), None).unwrap();
        let mut buf = vec![];
        pp::write(&mut buf, g, Some(&pp::ser::Opts{compression: comp})).unwrap();
        println!("slpp len {}", buf.len());
        let from: usize = std::env::args().nth(3).map(|s| s.parse().unwrap()).unwrap_or(0);
        let to: usize = std::env::args().nth(4).map(|s| s.parse().unwrap()).unwrap_or(buf.len());
        let mut last = String::new();
        for cut in from..to {
          let b = buf[..cut].to_vec();
          let bytes2 = bytes.clone();
          let t0 = std::time::Instant::now();
          let (tx,rx)=std::sync::mpsc::channel();
          std::thread::spawn(move || { let r = catch_unwind(move || {
            let spin = std::sync::Arc::new(std::sync::atomic::AtomicUsize::new(0));
            let rd = EofCounter{ inner: &b[..], post_eof: spin.clone() };
            match pp::read(rd, None) { Ok(g)=>{ let mut out=vec![]; slippi::write(&mut out,&g).unwrap(); format!("OK full={}", out==bytes2) }, Err(e)=> format!("ERR(posteof={}) {}", spin.load(std::sync::atomic::Ordering::SeqCst), e.to_string().chars().take(60).collect::<String>()) }
          });
          let _=tx.send(r); });
          let s = match rx.recv_timeout(std::time::Duration::from_millis(400)) { Ok(Ok(s))=>s, Ok(Err(_))=>"PANIC".into(), Err(_)=>"HANG".to_string() };
          let dt = t0.elapsed().as_millis();
          let s = if dt>500 { format!("{s} SLOW {dt}ms") } else { s };
          if s!=last { println!("cut {cut}: {s}"); last=s; }
        }
      }
      "deep_meta" => {
        let depth: usize = std::env::args().nth(2).unwrap().parse().unwrap();
        let mut m = vec![];
        for _ in 0..depth { m.extend_from_slice(b"U\x01a{"); }
        for _ in 0..depth { m.push(b'}'); }
        let mut s = mk((3,16,0)); s.metadata=Some(m);
        let bytes = build(&s,&mut rng);
        let r = slippi::read(Cursor::new(&bytes[..]), None);
        println!("depth {depth}: {:?}", r.map(|g| g.frames.len()).map_err(|e| e.to_string()));
      }
      _ => {}
    }
}
