#[path="../gen.rs"] mod gen;
use gen::*;
use std::io::Cursor;
use peppi::io::slippi;
use std::panic::catch_unwind;
use std::collections::BTreeMap;
use std::sync::Mutex;
static LAST: Mutex<String> = Mutex::new(String::new());
fn main() {
    std::panic::set_hook(Box::new(|i| { let loc=i.location().map(|l| format!("{}:{}", l.file(), l.line())).unwrap_or_default(); let msg=i.to_string().lines().nth(1).unwrap_or("").chars().take(70).collect::<String>(); *LAST.lock().unwrap()=format!("{loc} {msg}"); }));
    let mut rng = Rng(0xabcdef);
    let mut sites: BTreeMap<String,(usize,Vec<u8>)> = BTreeMap::new();
    let (mut ok, mut err, mut pan) = (0,0,0);
    let n: usize = std::env::args().nth(1).unwrap().parse().unwrap();
    for t in 0..n {
      let v = [(0,1,0),(1,0,0),(2,0,0),(2,2,0),(3,0,0),(3,7,0),(3,16,0)][t%7];
      let s = Spec{ v, ports: vec![(0,false),(1,true)], frames: simple_frames(4,3), gecko_blocks: (t%3), ends:1, metadata: Some(b"U\x01aSU\x02hi".to_vec()), extra:0 };
      let mut b = build(&s,&mut rng);
      let nm = 1 + (rng.next()%3) as usize;
      for _ in 0..nm { let hdr = 15 + 2 + 3*9 + 1; let pos = if rng.next()%4==0 { (rng.next() as usize)%b.len() } else { hdr + start_size((v.0,v.1)) + (rng.next() as usize)%(b.len()-hdr-start_size((v.0,v.1))) };
        match rng.next()%3 { 0=> b[pos]=rng.byte(), 1=> b[pos]^=1<<(rng.next()%8), _=> b[pos]=[0,1,2,3,4,255,0x37,0x38,0x39,0x3a,0x3b,0x3c,0x10,0x3d][(rng.next()%14) as usize] } }
      for skip in [false,true] {
        let bb=b.clone();
        let r = catch_unwind(move || slippi::read(Cursor::new(&bb[..]), Some(&slippi::de::Opts{skip_frames:skip, compute_hash: true, debug:None})).is_ok());
        match r { Ok(true)=>ok+=1, Ok(false)=>err+=1, Err(_)=>{ pan+=1; let k=LAST.lock().unwrap().clone(); sites.entry(k).or_insert((0,b.clone())).0+=1; } }
      }
    }
    println!("ok {ok} err {err} panic {pan}");
    for (k,(c,_)) in &sites { println!("{c:6} {k}"); }
}
