#!/bin/bash
# run every thorough check once, sequentially; summary lines to stdout
cd "$(dirname "$0")/.." && mkdir -p work
for id in C01 C02 C03 C04 C05 C08 C09 C10 C11 C12 C13 C14 C15 C16 C17 C18 C19 C20 C06 C07; do
  s=$(date +%s)
  ./check $id thorough > work/thorough-$id.log 2>&1
  rc=$?
  echo "$id exit=$rc secs=$(( $(date +%s) - s )) $(grep -E '^\[C' work/thorough-$id.log | tail -1)"
  grep -E "^(VIOLATION|HARNESS|KNOWN)" work/thorough-$id.log | cut -c1-200 | head -5
done
