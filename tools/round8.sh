#!/bin/bash
# round 8 (W-*): take one sub-agent result from /tmp/wt/out/W-<ID>, keep it under /verif/seeded/W-<ID>,
# confirm it (seedtest.py verify) and run its owning quick check against a scratch checkout (matrix).
# usage: round8.sh <ID> <mut-slot>
set -u
P=$1; W=${2:-0}
src=/tmp/wt/out/W-$P; d=/verif/seeded/W-$P
[ -f "$src/patch.diff" ] && [ -f "$src/demo.rs" ] || { echo "W-$P: incomplete delivery"; exit 2; }
mkdir -p "$d"; cp "$src/patch.diff" "$src/demo.rs" "$d/"; [ -f "$src/notes.md" ] && cp "$src/notes.md" "$d/"
cp /tmp/wt/w8_$P.prop.txt "$d/property_text.txt"; echo "$P" > "$d/prop.txt"
export SEED_MUT=/tmp/wt/mut$W SEED_LIVE=1
python3 /verif/tools/seedtest.py verify "$d" > "$d/verify.log" 2>&1
python3 /verif/tools/seedtest.py matrix "$d" "$P" > "$d/matrix.log" 2>&1
python3 - "$d" "$P" <<'E'
import json,sys,os
d,p=sys.argv[1:]
v=json.load(open(d+'/verify.json')); m=json.load(open(d+'/matrix.json')) if os.path.exists(d+'/matrix.json') else {}
own=m.get(p,{})
meta={'id':os.path.basename(d),'breaks_property':p,
 'needs_to_manifest':'see notes.md (written by the sub-agent that produced the change)',
 'confirmed': v.get('confirmed'),
 'confirmed_by':'tools/seedtest.py verify: patch applies; repository suite passes with it (%s tests); demonstration fails with it and passes without it' % v.get('suite_with_change',{}).get('passed'),
 'ran':'tools/round8.sh: seedtest.py verify, then seedtest.py matrix for the owning quick check against a scratch checkout with the patch',
 'owning_checks':[p],'owning_check_exit':own.get('exit'),'owning_check_signatures':own.get('signatures',[])[:3]}
json.dump(meta,open(d+'/meta.json','w'),indent=1)
print(os.path.basename(d),'confirmed=',v.get('confirmed'),'owning exit=',own.get('exit'),own.get('signatures',[])[:1])
E
