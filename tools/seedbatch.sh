#!/bin/bash
# verify + full quick-check matrix for every delivered seeded change that has none yet
for d in /tmp/wt/out/*/*/; do
  [ -f "$d/patch.diff" ] || continue
  [ -f "$d/verify.json" ] || python3 /verif/tools/seedtest.py verify "$d" > "$d/verify.log" 2>&1
  [ -f "$d/matrix.json" ] || python3 /verif/tools/seedtest.py matrix "$d" > "$d/matrix.log" 2>&1
done
