#!/bin/bash
# verify + full quick-check matrix for every delivered seeded change that has none yet.
# usage: seedbatch.sh <worker> <nworkers>
W=${1:-0}; N=${2:-1}; i=0
export SEED_MUT=/tmp/wt/mut$W
for d in /tmp/wt/out/*/*/; do
  i=$((i+1)); [ $((i % N)) -eq $W ] || continue
  [ -f "$d/patch.diff" ] || continue
  [ -f "$d/verify.json" ] || python3 /verif/tools/seedtest.py verify "$d" > "$d/verify.log" 2>&1
  [ -f "$d/matrix.json" ] || python3 /verif/tools/seedtest.py matrix "$d" > "$d/matrix.log" 2>&1
done
