#!/bin/bash
# full quick-check matrix (live harness) for every seeded change under /verif/seeded that has none yet.
# usage: seedbatch.sh <worker> <nworkers>
W=${1:-0}; N=${2:-1}; i=0
export SEED_MUT=/tmp/wt/mut$W SEED_LIVE=1
for d in /verif/seeded/*-*/; do
  i=$((i+1)); [ $((i % N)) -eq $W ] || continue
  [ -f "$d/patch.diff" ] || continue
  case "$d" in *REVERT*) ;; *) [ -f "$d/verify.json" ] || python3 /verif/tools/seedtest.py verify "$d" > "$d/verify.log" 2>&1 ;; esac
  [ -f "$d/matrix.json" ] || python3 /verif/tools/seedtest.py matrix "$d" > "$d/matrix.log" 2>&1
done
echo BATCH-DONE-$W
