#!/usr/bin/env python3
"""Handling of seeded property-breaking changes (see DESIGN.md section "Seeded changes").

  seedtest.py verify <dir>            confirm in a scratch worktree that patch.diff applies, the repository's
                                      own tests still pass with it, and the demonstration fails with it and
                                      passes without it. Writes <dir>/verify.json.
  seedtest.py matrix <dir> [ID ...]   apply the patch to a private scratch checkout of /repo and run the quick
                                      checks (all, or the given ones) with a private copy of the harness that
                                      points at that checkout. Writes <dir>/matrix.json. /repo is not touched.
  seedtest.py official <dir> <ID...>  the prescribed way: git -C /repo apply, ./check <ID> quick, undo.

Scratch state lives under /tmp/wt/mut and is deleted by `seedtest.py clean`.
"""
import json, os, re, shutil, subprocess, sys, time, glob

VERIF = os.path.dirname(os.path.dirname(os.path.abspath(__file__)))
MUT = os.environ.get('SEED_MUT', '/tmp/wt/mut')
ENV = dict(os.environ, CARGO_NET_OFFLINE='true')


def sh(cmd, cwd=None, env=None, timeout=3600):
    p = subprocess.run(cmd, shell=True, cwd=cwd, env=env or ENV, stdout=subprocess.PIPE, stderr=subprocess.STDOUT, timeout=timeout)
    return p.returncode, p.stdout.decode('utf-8', 'replace')


def test_summary(out):
    passed = sum(int(m) for m in re.findall(r'test result: \w+\. (\d+) passed', out))
    failed = sum(int(m) for m in re.findall(r'test result: \w+\. \d+ passed; (\d+) failed', out))
    return passed, failed


def demos(d):
    return sorted(f for f in glob.glob(os.path.join(d, '*.rs')))


def verify(d):
    os.makedirs(MUT, exist_ok=True)
    wt = '/tmp/wt/verify_' + str(os.getpid())
    sh(f'git -C /repo worktree remove --force {wt}')
    rc, out = sh(f'git -C /repo worktree add -q --detach {wt} HEAD')
    assert rc == 0, out
    res = {'dir': d}
    try:
        env = dict(ENV, CARGO_TARGET_DIR=os.path.join(MUT, 'verify_target'))
        ds = demos(d)
        names = []
        for f in ds:
            n = 'seeddemo_' + os.path.splitext(os.path.basename(f))[0]
            shutil.copy(f, os.path.join(wt, 'tests', n + '.rs'))
            names.append(n)
        # any extra data files the demo needs
        for f in glob.glob(os.path.join(d, '*.slp')):
            shutil.copy(f, os.path.join(wt, 'tests', 'data', os.path.basename(f)))
        # 1. demo on unchanged code
        ok_clean = True
        for n in names:
            rc, out = sh(f'cargo test --offline --test {n} 2>&1', cwd=wt, env=env)
            p, f_ = test_summary(out)
            res.setdefault('demo_clean', {})[n] = {'rc': rc, 'passed': p, 'failed': f_}
            ok_clean &= (rc == 0 and p > 0)
        # 2. apply the change
        rc, out = sh(f'git apply {os.path.join(d, "patch.diff")}', cwd=wt)
        res['applies'] = rc == 0
        if rc != 0:
            res['apply_error'] = out[-500:]
        # 3. existing suite with the change (demo files moved away)
        for n in names:
            os.rename(os.path.join(wt, 'tests', n + '.rs'), os.path.join(wt, n + '.rs.hold'))
        rc, out = sh('cargo test --offline --no-fail-fast 2>&1', cwd=wt, env=env)
        p, f_ = test_summary(out)
        res['suite_with_change'] = {'rc': rc, 'passed': p, 'failed': f_}
        for n in names:
            os.rename(os.path.join(wt, n + '.rs.hold'), os.path.join(wt, 'tests', n + '.rs'))
        # 4. demo with the change
        fails = False
        for n in names:
            rc, out = sh(f'cargo test --offline --no-fail-fast --test {n} 2>&1', cwd=wt, env=env)
            p, f_ = test_summary(out)
            res.setdefault('demo_changed', {})[n] = {'rc': rc, 'passed': p, 'failed': f_, 'tail': out[-300:] if rc != 0 and f_ == 0 else ''}
            fails |= rc != 0
        res['confirmed'] = bool(res['applies'] and ok_clean and res['suite_with_change']['rc'] == 0 and res['suite_with_change']['passed'] >= 30 and fails)
    finally:
        sh(f'git -C /repo worktree remove --force {wt}')
    json.dump(res, open(os.path.join(d, 'verify.json'), 'w'), indent=1)
    print(json.dumps(res, indent=1))
    return res


def ensure_mut():
    os.makedirs(MUT, exist_ok=True)
    repo = os.path.join(MUT, 'repo')
    if not os.path.isdir(repo):
        rc, out = sh(f'git -C /repo worktree add -q --detach {repo} HEAD')
        assert rc == 0, out
    else:
        sh('git checkout -q --detach $(git -C /repo rev-parse HEAD) && git checkout -- . && git clean -fdq', cwd=repo)
    h = os.path.join(MUT, 'harness')
    shutil.rmtree(h, ignore_errors=True)
    # a frozen copy of the harness (if present) lets a batch measure what the checks caught *before* later strengthening
    src = os.environ.get('SEED_HARNESS') or ('/tmp/wt/harness_snapshot' if os.path.isdir('/tmp/wt/harness_snapshot') and not os.environ.get('SEED_LIVE') else os.path.join(VERIF, 'harness'))
    shutil.copytree(src, h)
    t = open(os.path.join(h, 'Cargo.toml')).read().replace('path = "/repo"', f'path = "{repo}"')
    open(os.path.join(h, 'Cargo.toml'), 'w').write(t)
    return repo, h


def run_checks(ids, env, harness):
    out = {}
    rc, o = sh('cargo build --offline -q 2>&1', cwd=harness, env=env)
    if rc != 0:
        return {'build': 'FAILED', 'log': o[-1500:]}
    binp = os.path.join(env['CARGO_TARGET_DIR'], 'debug', 'pvh')
    for i in ids:
        t0 = time.time()
        rc, o = sh(f'{binp} run {i} quick', env=env, timeout=1800)
        sigs = sorted(set(re.findall(r'signature: (.*)', o)))
        out[i] = {'exit': rc, 'signatures': sigs[:6], 'wall_s': round(time.time() - t0, 1), 'known': len(re.findall(r'^KNOWN-FINDING', o, re.M))}
        print(i, rc, sigs[:2], flush=True)
    return out


def all_ids():
    return [json.loads(l)['id'] for l in open(os.path.join(VERIF, 'properties.jsonl'))]


def matrix(d, ids):
    repo, h = ensure_mut()
    rc, out = sh(f'git apply {os.path.join(d, "patch.diff")}', cwd=repo)
    assert rc == 0, out
    root = os.path.join(MUT, 'root')
    os.makedirs(root, exist_ok=True)
    env = dict(ENV, CARGO_TARGET_DIR=os.path.join(MUT, 'target'), PVH_ROOT=root, PVH_REPO=repo, PVH_FINDINGS=os.path.join(VERIF, 'known_findings.json'), PVH_HARNESS=h, PVH_NO_LANES='1')
    res = run_checks(ids or all_ids(), env, h)
    sh('git checkout -- . && git clean -fdq', cwd=repo)
    prev = {}
    mp = os.path.join(d, 'matrix.json')
    if os.path.exists(mp):
        prev = json.load(open(mp))
    prev.update(res)
    json.dump(prev, open(mp, 'w'), indent=1)
    return res


def official(d, ids):
    st = subprocess.run('git -C /repo status --porcelain --untracked-files=no', shell=True, stdout=subprocess.PIPE).stdout.decode().strip()
    assert st == '', '/repo has local modifications: ' + st
    rc, out = sh(f'git -C /repo apply {os.path.join(d, "patch.diff")}')
    assert rc == 0, out
    res = {}
    try:
        for i in ids:
            rc, o = sh(f'./check {i} quick', cwd=VERIF, timeout=1800)
            sigs = sorted(set(re.findall(r'signature: (.*)', o)))
            res[i] = {'exit': rc, 'signatures': sigs[:6]}
            print(i, rc, sigs[:3], flush=True)
    finally:
        sh('git -C /repo checkout -- .')
    mp = os.path.join(d, 'official.json')
    prev = json.load(open(mp)) if os.path.exists(mp) else {}
    prev.update(res)
    json.dump(prev, open(mp, 'w'), indent=1)
    return res


if __name__ == '__main__':
    cmd = sys.argv[1]
    if cmd == 'verify':
        verify(os.path.abspath(sys.argv[2]))
    elif cmd == 'matrix':
        matrix(os.path.abspath(sys.argv[2]), sys.argv[3:])
    elif cmd == 'official':
        official(os.path.abspath(sys.argv[2]), sys.argv[3:])
    elif cmd == 'clean':
        sh(f'git -C /repo worktree remove --force {MUT}/repo')
        shutil.rmtree(MUT, ignore_errors=True)
        shutil.rmtree('/tmp/wt/verify_target', ignore_errors=True)
