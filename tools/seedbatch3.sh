#!/bin/bash
# round-5 final pass: full matrix for the round-5 changes (T*); for every other change without a
# matrix.json, its owning checks only (its earlier full matrix stays in matrix_prev.json and is
# merged by seed_summary.py)
W=${1:-0}; N=${2:-1}; i=0
export SEED_MUT=/tmp/wt/mut$W SEED_LIVE=1
for d in /verif/seeded/*-*/; do
  i=$((i+1)); [ $((i % N)) -eq $W ] || continue
  [ -f "$d/matrix.json" ] && continue
  id=$(basename $d)
  case "$id" in
    T*|U*|V*) python3 /verif/tools/seedtest.py matrix "$d" > "$d/matrix.log" 2>&1 ;;
    *) own=$(python3 -c "
import json,os
d='$d'
e=json.load(open(d+'extra.json')) if os.path.exists(d+'extra.json') else {}
m=json.load(open(d+'meta.json')) if os.path.exists(d+'meta.json') else {}
print(' '.join(e.get('owning') or m.get('owning_checks') or ['${id%%-*}']))"); python3 /verif/tools/seedtest.py matrix "$d" $own > "$d/matrix.log" 2>&1 ;;
  esac
done
echo BATCH3-DONE-$W
