#!/usr/bin/env python3
"""Generates harness/data/cp932.tbl: the reference decoding of every one-byte
and every two-byte sequence, from CPython's cp932 codec (strict).

Layout: 256 single-byte records followed by 65536 two-byte records (index
lead*256+trail). A record is one length byte L followed by L bytes of UTF-8;
L = 255 means "decoding error". For two-byte records the reference is the
strict decoding of the two bytes as a complete string (so e.g. 'A' + 'B' is
"AB", a valid double-byte character is one scalar, and a lead byte followed by
an invalid trail byte is an error).

Known, deliberate deviation applied by the harness (not here): the WHATWG
Shift_JIS decoder used by encoding_rs treats the single bytes 0xA0, 0xFD, 0xFE,
0xFF as errors, while cp932 maps them to U+F8F0..U+F8F3; and 0x80 -> U+0080 in
both. sjis.rs overrides those four.
"""
import os, sys
out = bytearray()
def rec(bs):
    try:
        s = bytes(bs).decode('cp932', errors='strict').encode('utf-8')
        assert len(s) < 255
        return bytes([len(s)]) + s
    except UnicodeDecodeError:
        return bytes([255])
for a in range(256):
    out += rec([a])
for a in range(256):
    for b in range(256):
        out += rec([a, b])
path = os.path.join(os.path.dirname(os.path.abspath(__file__)), '..', 'harness', 'data', 'cp932.tbl')
open(path, 'wb').write(out)
print(len(out), 'bytes')
