#!/bin/bash
# final pass: full matrix for round-3 changes (R*), owning checks only for the others (their full
# matrix from the previous harness stays in matrix_prev.json and is merged by seed_summary.py)
W=${1:-0}; N=${2:-1}; i=0
export SEED_MUT=/tmp/wt/mut$W SEED_LIVE=1
for d in /verif/seeded/*-*/; do
  i=$((i+1)); [ $((i % N)) -eq $W ] || continue
  [ -f "$d/matrix.json" ] && continue
  id=$(basename $d)
  case "$id" in
    R*|S*) python3 /verif/tools/seedtest.py matrix "$d" > "$d/matrix.log" 2>&1 ;;
    REVERT*) own=$(python3 -c "import json;print(' '.join(json.load(open('$d/extra.json'))['owning']))"); python3 /verif/tools/seedtest.py matrix "$d" $own > "$d/matrix.log" 2>&1 ;;
    *) python3 /verif/tools/seedtest.py matrix "$d" ${id%%-*} > "$d/matrix.log" 2>&1 ;;
  esac
done
echo BATCH2-DONE-$W
