#!/bin/bash
# One-time build after a fresh restore (offline).
set -eu
ROOT="$(cd "$(dirname "$0")" && pwd)"
export CARGO_NET_OFFLINE=true
export CARGO_TARGET_DIR="$ROOT/target"
mkdir -p "$ROOT/work" "$ROOT/evidence"
cd "$ROOT/harness"
[ -f Cargo.lock ] || cp /repo/Cargo.lock Cargo.lock
cargo build --offline
"$ROOT/target/debug/pvh" selfcheck > "$ROOT/work/selfcheck.log"
echo "setup ok"
