//! Concurrency stress: several threads of one process work on DIFFERENT games at the same
//! moment. Sequential use and many threads on the same game cannot show state shared between
//! calls (a scratch buffer, a memo table); different games of the same shape make a leak visible
//! as a wrong result, different shapes as a failure.

use std::sync::{Arc, Barrier};

#[derive(Default)]
pub struct Outcome {
	pub done: u64,
	pub problems: Vec<String>,
	/// results that differed from the single-threaded reference and were judged in full
	pub judged_in_full: u64,
}

/// Runs `work(thread index, input)` on one thread per input, released together by a barrier.
/// `Err(())` = the thread panicked outside the guards.
pub fn run<T: Send + 'static>(inputs: Vec<T>, work: impl Fn(usize, T) -> Outcome + Send + Sync + 'static) -> Vec<Result<Outcome, ()>> {
	let barrier = Arc::new(Barrier::new(inputs.len()));
	let work = Arc::new(work);
	let mut handles = vec![];
	for (t, inp) in inputs.into_iter().enumerate() {
		let (bar, w) = (barrier.clone(), work.clone());
		handles.push(std::thread::spawn(move || {
			crate::driver::install_panic_hook();
			bar.wait();
			w(t, inp)
		}));
	}
	handles.into_iter().map(|h| h.join().map_err(|_| ())).collect()
}

/// Small games for the threads of one stress case, by case kind (k % 4):
///   0: two distinct games shared by all threads, same version (and same ports if `same_ports`)
///   1: two distinct games shared by all threads, different versions and ports
///   2: every thread its own game, same version (and same ports if `same_ports`)
///   3: every thread its own game, versions and ports differ
/// Two games alternating over many threads is what exposes a "last value" memo or scratch buffer
/// best (it holds the caller's own key half of the time); many games expose keyed tables.
/// Same shape: a leak is a silently wrong result; different shapes: a failure.
pub fn games(seed: u64, k: usize, nthreads: usize, same_ports: bool) -> Vec<(String, Vec<u8>)> {
	const VERS: [(u8, u8, u8); 8] = [(1, 0, 0), (0, 1, 0), (1, 7, 1), (2, 0, 1), (2, 2, 0), (3, 7, 0), (3, 12, 0), (3, 16, 0)];
	const PORTS: [&[(u8, bool)]; 6] = [&[(0, false), (1, false)], &[(1, false), (3, false)], &[(0, true)], &[(0, false), (1, false), (2, false), (3, false)], &[(2, false), (3, true)], &[(0, false), (2, false)]];
	let mixed = k % 2 == 1;
	let distinct = if k % 4 < 2 { 2 } else { nthreads };
	let mut pool = vec![];
	for t in 0..distinct {
		let mut rng = crate::rng::Rng::derive(seed, 0x57E55 ^ ((k as u64) << 8) ^ t as u64);
		let ver = if mixed { VERS[(k / 4 + t) % VERS.len()] } else { VERS[(k / 4) % VERS.len()] };
		let ports = if same_ports && !mixed { PORTS[(k / 4) % PORTS.len()] } else { PORTS[(k / 4 + t) % PORTS.len()] };
		let nframes = [0usize, 1, 2, 5, 3, 0, 8, 1][(t + k) % 8];
		let s = crate::gen::base_spec(ver, ports.to_vec(), nframes);
		let b = crate::gen::build(&s, &mut rng);
		pool.push((s.describe(), b.bytes));
	}
	(0..nthreads).map(|t| (format!("{} [stress thread {}]", pool[t % distinct].0, t), pool[t % distinct].1.clone())).collect()
}

pub fn kind_name(k: usize) -> &'static str {
	["two-games|same-version", "two-games|mixed-versions", "game-per-thread|same-version", "game-per-thread|mixed-versions"][k % 4]
}
