//! Sanitizer lanes: small, deterministic, in-process workloads meant to be
//! executed under an instrumented runtime (Miri, valgrind memcheck) where the
//! runtime itself is the oracle for memory errors / undefined behaviour, in
//! addition to the functional oracles below. No subprocesses; threads only in `concurrent`.
//!
//!   pvh lane <roundtrip|roundtrip-slpp|hostile|truncate|concurrent> <shard> <nshards> [c]
//! `c` = also use LZ4/ZSTD (not possible under Miri: C FFI).

use crate::common::{self, Comp, Fail};
use crate::monitors::c06;
use crate::rng::Rng;
use crate::{gen, mutate, spec, view};
use std::sync::Arc;

fn small_specs(n_frames: usize) -> Vec<gen::Spec> {
	let mut out = vec![];
	for (i, v) in spec::layout_versions().into_iter().enumerate() {
		let ports = match i % 4 {
			0 => vec![(0, false), (1, false)],
			1 => vec![(0, true), (3, false)],
			2 => vec![(2, false)],
			_ => vec![(1, true), (2, true)],
		};
		let mut rng = Rng::derive(0x1A4E, i as u64);
		let nchars: usize = ports.iter().map(|(_, c)| 1 + *c as usize).sum();
		let mut s = gen::base_spec((v.0, v.1, 0), ports, 0);
		s.frames = gen::gen_frames(&mut rng, v, nchars, n_frames, true, 3, 2);
		s.rich_start = true;
		s.metadata = Some(gen::gen_meta(&mut rng, 1, 2));
		s.ends = [1, 2, 0][i % 3];
		if spec::gte(v, (3, 3)) && i % 2 == 0 {
			s.gecko_blocks = 1;
			s.gecko_tail = 5;
		}
		out.push(s);
	}
	out
}

fn slpp_writable(v: spec::V, nports: usize) -> bool {
	crate::monitors::c14::empty_struct_class(v, nports) == "other"
}

pub fn main(name: &str, shard: usize, nshards: usize, compress: bool) -> i32 {
	// odd shards run with a discarding Trace-level logger, so the arguments of the library's log
	// macros are evaluated under the instrumented runtime as well
	crate::driver::install_logger();
	crate::driver::set_logging_for_case(shard);
	let mut evals = 0u64;
	let mut bad: Vec<String> = vec![];
	let comps: Vec<Comp> = if compress { vec![Comp::None, Comp::Lz4, Comp::Zstd] } else { vec![Comp::None] };
	match name {
		"roundtrip" | "roundtrip-slpp" => {
			for (i, s) in small_specs(3).into_iter().enumerate() {
				if i % nshards != shard {
					continue;
				}
				let mut rng = Rng::derive(0x1A4E + 1, i as u64);
				let b = gen::build(&s, &mut rng);
				let desc = s.describe();
				let g = match common::slp_read(&b.bytes, false, true) {
					Ok(g) => g,
					Err(f) => {
						bad.push(format!("{}: read: {}", desc, f.text()));
						continue;
					}
				};
				evals += 1;
				match common::slp_write(&g) {
					Ok(w) if w == b.bytes => {}
					Ok(_) => bad.push(format!("{}: round trip differs", desc)),
					Err(f) => bad.push(format!("{}: write: {}", desc, f.text())),
				}
				let (r, sink) = common::slp_write_sink(&g, crate::iofault::Sink::short(7));
				if r.is_err() || sink.buf != b.bytes {
					bad.push(format!("{}: write through a 7-byte sink differs", desc));
				}
				evals += 1;
				// row views, column access, rollback masks
				let version = g.start.slippi.version;
				let cols = view::cols_imm(&g.frames);
				for r in 0..cols.rows {
					let fr = g.frames.transpose_one(r, version);
					if view::row_flat(&fr).get("id").copied() != cols.leaves.get("id").map(|c| c.1[r]) {
						bad.push(format!("{}: row {} id differs", desc, r));
					}
				}
				let _ = g.frames.rollbacks(peppi::frame::Rollbacks::ExceptFirst);
				let _ = g.frames.rollbacks(peppi::frame::Rollbacks::ExceptLast);
				// incremental API under 1-byte reads
				let mut src = crate::iofault::Src::new(Arc::new(b.bytes.clone()), crate::iofault::Policy::Fixed(if i % 2 == 0 { 1 } else { 3 }));
				if let Err(f) = common::incremental(&mut src, |st, _, _| {
					let _ = st.bytes_read();
				}) {
					bad.push(format!("{}: incremental: {}", desc, f.text()));
				}
				evals += 1;
				let nports = view::occupied_chars(&b.truth.start).iter().filter(|c| !c.1).count();
				if slpp_writable(s.v(), nports) {
					// Arrow export / import
					let ports = common::ports_of(&g.start);
					let arr = g.frames.into_struct_array(version, &ports);
					let back = peppi::frame::immutable::Frame::from_struct_array(arr, version);
					if back.id.len() != cols.rows {
						bad.push(format!("{}: arrow import rows", desc));
					}
					evals += 1;
					if name == "roundtrip-slpp" {
						for comp in &comps {
							let g1 = common::slp_read(&b.bytes, false, true).ok().unwrap();
							match common::slpp_write(g1, *comp).and_then(|a| common::slpp_read(&a, false)).and_then(|g2| common::slp_write(&g2)) {
								Ok(w) if w == b.bytes => {}
								Ok(_) => bad.push(format!("{} comp={}: slpp trip differs", desc, comp.name())),
								Err(f) => bad.push(format!("{} comp={}: slpp trip: {}", desc, comp.name(), f.text())),
							}
							evals += 1;
						}
					}
				}
			}
		}
		"hostile" => {
			let seeds = c06::seeds();
			let dbg = std::path::PathBuf::from("/nonexistent-debug-dir");
			let per = 3u64;
			let mut k = 0usize;
			for (si, seed) in seeds.iter().enumerate() {
				for (oi, op) in mutate::OPS.iter().enumerate() {
					k += 1;
					if k % nshards != shard {
						continue;
					}
					for r in 0..per {
						let mut rng = Rng::derive(0x1A4E + 2, (si * 1000 + oi) as u64 * 16 + r);
						let (bytes, what) = mutate::apply(op, &seed.bytes, &seed.model, &mut rng);
						let bytes = Arc::new(bytes);
						for mode in [(r as usize) % 4, 4] {
							let (o, _) = c06::run_mode(&bytes, mode, None, &dbg, |_| {});
							evals += 1;
							match o {
								c06::Outcome::Panic(loc, msg) => bad.push(format!("{} after [{}] mode {}: panic at {}: {}", seed.name, what, c06::MODES[mode], loc, msg)),
								c06::Outcome::Spin => bad.push(format!("{} after [{}]: EOF spin", seed.name, what)),
								_ => {}
							}
						}
					}
				}
			}
		}
		"truncate" => {
			let seeds = c06::seeds();
			let mut k = 0usize;
			for seed in seeds.iter() {
				let nports = view::occupied_chars(&seed.model.start).iter().filter(|c| !c.1).count();
				if !slpp_writable(seed.model.v(), nports) {
					continue;
				}
				for comp in &comps {
					k += 1;
					if k % nshards != shard {
						continue;
					}
					let Ok(g) = common::slp_read(&seed.bytes, false, true) else { continue };
					let hash = g.hash.clone();
					let arch = match common::slpp_write(g, *comp) {
						Ok(a) => a,
						Err(f) => {
							bad.push(format!("{}: slpp write: {}", seed.name, f.text()));
							continue;
						}
					};
					// cut points: tar block boundaries +-1 and a stride through the whole archive
					let mut cuts: Vec<usize> = vec![];
					let mut b = 0;
					while b < arch.len() {
						cuts.extend([b.saturating_sub(1), b, b + 1]);
						b += 512;
					}
					let stride = (arch.len() / if compress { 400 } else { 60 }).max(1);
					cuts.extend((0..arch.len()).step_by(stride));
					cuts.sort();
					cuts.dedup();
					cuts.retain(|c| *c < arch.len());
					if !compress {
						// Miri: keep it small
						cuts = cuts.into_iter().step_by(3).collect();
					}
					for n in cuts {
						evals += 1;
						match common::slpp_read(&arch[..n], false) {
							Err(Fail::Err(_)) => {}
							Err(Fail::Panic(p)) => bad.push(format!("{} comp={} cut {}: panic at {}: {}", seed.name, comp.name(), n, p.loc, p.msg)),
							Ok(g2) => {
								if g2.hash != hash || common::slp_write(&g2).ok().as_deref() != Some(&seed.bytes[..]) {
									bad.push(format!("{} comp={} cut {}: partial game accepted", seed.name, comp.name(), n));
								}
							}
						}
					}
				}
			}
		}
		"concurrent" => {
			// Three threads work on different tiny games at once: under Miri the data-race detector
			// and the borrow model watch every access of any state the library (or arrow2) shares
			// between calls, whatever the interleaving happens to produce; the shard number seeds
			// Miri's scheduler (-Zmiri-seed), so every shard is another schedule.
			let kinds = [(shard * 2) % 8, (shard * 2 + 1) % 8];
			for k in kinds {
				let inputs: Vec<(String, Vec<u8>)> = crate::stress::games(0x1A4E + 3, k, 3, false).into_iter().filter(|(_, b)| crate::model::parse(b).map_or(false, |m| slpp_writable(m.v(), view::occupied_chars(&m.start).iter().filter(|c| !c.1).count()))).collect();
				if inputs.len() < 2 {
					continue;
				}
				let results = crate::stress::run(inputs, move |t, (d, b)| {
					let mut o = crate::stress::Outcome::default();
					for round in 0..2 {
						let Ok(mut g) = common::slp_read(&b, false, t % 2 == 0) else {
							o.problems.push(format!("{}: read failed", d));
							break;
						};
						let Ok(g2) = common::slp_read(&b, false, false) else { break };
						let (v, p) = (g.start.slippi.version, common::ports_of(&g.start));
						let arr = g2.frames.into_struct_array(v, &p);
						g.frames = peppi::frame::immutable::Frame::from_struct_array(arr, v);
						match common::slp_write(&g) {
							Ok(w) if w == b => {}
							_ => o.problems.push(format!("{}: export/import round {} under concurrency differs", d, round)),
						}
						o.done += 1;
						if round == 0 {
							match common::slpp_write(g, Comp::None).and_then(|a| common::slpp_read(&a, false)).and_then(|g3| common::slp_write(&g3)) {
								Ok(w) if w == b => {}
								Ok(_) => o.problems.push(format!("{}: .slpp trip under concurrency differs", d)),
								Err(f) => o.problems.push(format!("{}: .slpp trip under concurrency: {}", d, f.text())),
							}
							o.done += 1;
						}
					}
					o
				});
				for r in results {
					match r {
						Ok(o) => {
							evals += o.done;
							bad.extend(o.problems);
						}
						Err(()) => bad.push("a thread of the concurrent lane panicked".to_string()),
					}
				}
			}
		}
		_ => {
			println!("LANE-ERROR unknown lane {}", name);
			return 2;
		}
	}
	for b in bad.iter().take(10) {
		println!("LANE-VIOLATION {}", b);
	}
	println!("LANE-DONE lane={} shard={}/{} evaluations={} functional_violations={}", name, shard, nshards, evals, bad.len());
	if bad.is_empty() {
		0
	} else {
		1
	}
}
