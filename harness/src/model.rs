//! Reference model of a .slp file: an independent, deliberately small parser
//! that turns bytes into an event history (no peppi types, no peppi code).

use crate::spec::{self, Kind, V};
use std::collections::BTreeMap;

#[derive(Clone, Debug, PartialEq, Eq)]
pub enum MVal {
	Str(String),
	Int(i32),
	Map(Meta),
}
pub type Meta = Vec<(String, MVal)>;

#[derive(Clone, Debug, PartialEq, Eq, Default)]
pub struct CharEv {
	pub pre: Option<Vec<u8>>,
	pub post: Option<Vec<u8>>,
}

/// One frame occurrence (a rolled-back frame id appears once per occurrence).
#[derive(Clone, Debug, PartialEq, Eq, Default)]
pub struct Occ {
	pub id: i32,
	/// full payloads, fixed header included
	pub start: Option<Vec<u8>>,
	pub end: Option<Vec<u8>>,
	pub chars: BTreeMap<(u8, bool), CharEv>,
	pub items: Vec<Vec<u8>>,
}

#[derive(Clone, Debug, PartialEq, Eq)]
pub struct Gecko {
	/// concatenated 512-byte blocks (padding included)
	pub bytes: Vec<u8>,
	pub actual_size: u32,
}

#[derive(Clone, Debug, PartialEq, Eq, Default)]
pub struct Model {
	pub version: (u8, u8, u8),
	pub declared_raw_len: u32,
	pub table: Vec<(u8, u16)>,
	pub start: Vec<u8>,
	pub gecko: Option<Gecko>,
	pub frames: Vec<Occ>,
	/// Game End payloads, in order (0, 1 or 2 for well-formed files)
	pub ends: Vec<Vec<u8>>,
	/// number of events with codes outside the known set that were skipped
	pub unknown_events: usize,
	/// bytes after the first Game End that are still inside the raw element and
	/// are not a second identical Game End
	pub junk_after_end: usize,
	/// length of the raw element as actually laid out (through the last event)
	pub actual_raw_len: usize,
	pub metadata: Option<Meta>,
	/// total file bytes through the closing brace
	pub consumed: usize,
	/// (code, offset of command byte in file, payload length) for every event
	/// after the payload table, in file order
	pub events: Vec<(u8, usize, usize)>,
}

impl Model {
	pub fn v(&self) -> V {
		(self.version.0, self.version.1)
	}
}

pub const SIG: [u8; 11] = [0x7b, 0x55, 0x03, 0x72, 0x61, 0x77, 0x5b, 0x24, 0x55, 0x23, 0x6c];

struct Cur<'a> {
	b: &'a [u8],
	p: usize,
}
impl<'a> Cur<'a> {
	fn take(&mut self, n: usize) -> Result<&'a [u8], String> {
		if self.p + n > self.b.len() {
			return Err(format!("eof at {} (+{})", self.p, n));
		}
		let s = &self.b[self.p..self.p + n];
		self.p += n;
		Ok(s)
	}
	fn u8(&mut self) -> Result<u8, String> {
		Ok(self.take(1)?[0])
	}
}

fn be_i32(b: &[u8]) -> i32 {
	i32::from_be_bytes([b[0], b[1], b[2], b[3]])
}

fn read_meta(c: &mut Cur, depth: usize) -> Result<Meta, String> {
	if depth > 2000 {
		return Err("model: metadata too deep".into());
	}
	let mut m = vec![];
	loop {
		match c.u8()? {
			b'}' => return Ok(m),
			b'U' => {
				let n = c.u8()? as usize;
				let k = String::from_utf8(c.take(n)?.to_vec()).map_err(|e| e.to_string())?;
				let v = match c.u8()? {
					b'S' => {
						if c.u8()? != b'U' {
							return Err("string len marker".into());
						}
						let n = c.u8()? as usize;
						MVal::Str(String::from_utf8(c.take(n)?.to_vec()).map_err(|e| e.to_string())?)
					}
					b'l' => MVal::Int(be_i32(c.take(4)?)),
					b'{' => MVal::Map(read_meta(c, depth + 1)?),
					x => return Err(format!("value marker {:#x}", x)),
				};
				m.push((k, v));
			}
			x => return Err(format!("key marker {:#x}", x)),
		}
	}
}

pub fn write_meta(out: &mut Vec<u8>, m: &Meta) {
	for (k, v) in m {
		out.push(b'U');
		out.push(k.len() as u8);
		out.extend_from_slice(k.as_bytes());
		match v {
			MVal::Str(s) => {
				out.extend_from_slice(b"SU");
				out.push(s.len() as u8);
				out.extend_from_slice(s.as_bytes());
			}
			MVal::Int(i) => {
				out.push(b'l');
				out.extend_from_slice(&i.to_be_bytes());
			}
			MVal::Map(mm) => {
				out.push(b'{');
				write_meta(out, mm);
				out.push(b'}');
			}
		}
	}
}

/// Parse a complete .slp. Tolerates: unknown events declared in the table,
/// junk after Game End inside the raw element, a doubled Game End, absent Game
/// End, absent metadata, any order of a frame's events.
pub fn parse(b: &[u8]) -> Result<Model, String> {
	let mut c = Cur { b, p: 0 };
	if c.take(11)? != SIG {
		return Err("signature".into());
	}
	let declared = u32::from_be_bytes(c.take(4)?.try_into().unwrap());
	let raw_start = c.p;
	let raw_end = raw_start + declared as usize;
	if raw_end > b.len() {
		return Err("declared raw length beyond file".into());
	}
	let mut m = Model { declared_raw_len: declared, ..Default::default() };
	if c.u8()? != 0x35 {
		return Err("no payload table".into());
	}
	let n = c.u8()? as usize;
	if n % 3 != 1 {
		return Err("table size".into());
	}
	let mut sizes: [Option<usize>; 256] = [None; 256];
	for _ in 0..(n - 1) / 3 {
		let e = c.take(3)?;
		let sz = u16::from_be_bytes([e[1], e[2]]);
		m.table.push((e[0], sz));
		sizes[e[0] as usize] = Some(sz as usize);
	}
	if c.u8()? != 0x36 {
		return Err("no game start".into());
	}
	m.start = c.take(sizes[0x36].ok_or("no start size")?)?.to_vec();
	if m.start.len() < 4 {
		return Err("start too short".into());
	}
	m.version = (m.start[0], m.start[1], m.start[2]);
	let v = m.v();
	m.events.push((0x36, raw_start + 2 + (n - 1), m.start.len()));

	let mut gecko_acc: Vec<u8> = vec![];
	let mut gecko_actual: u32 = 0;
	let mut cur: Option<Occ> = None;
	let mut ended = false;
	while c.p < raw_end {
		let at = c.p;
		let code = c.u8()?;
		if ended {
			// anything after the first Game End that is still inside raw
			let rest = raw_end - at;
			let first_end = m.ends[0].clone();
			if rest == 1 + first_end.len() && code == 0x39 && &b[at + 1..raw_end] == &first_end[..] {
				m.ends.push(first_end);
				m.events.push((0x39, at, rest - 1));
			} else {
				m.junk_after_end = rest;
			}
			c.p = raw_end;
			break;
		}
		let sz = sizes[code as usize].ok_or(format!("event {:#x} at {} not in table", code, at))?;
		let payload = c.take(sz)?;
		m.events.push((code, at, sz));
		let (code, payload): (u8, Vec<u8>) = if code == 0x10 {
			if sz != 516 {
				return Err("splitter size".into());
			}
			let actual = u16::from_be_bytes([payload[512], payload[513]]);
			if actual > 512 {
				return Err("splitter actual".into());
			}
			gecko_acc.extend_from_slice(&payload[..512]);
			gecko_actual += actual as u32;
			if payload[515] == 0 {
				continue;
			}
			(payload[514], std::mem::take(&mut gecko_acc))
		} else {
			(code, payload.to_vec())
		};
		match code {
			0x3D => {
				m.gecko = Some(Gecko { bytes: payload, actual_size: gecko_actual });
			}
			0x39 => {
				m.ends.push(payload);
				ended = true;
			}
			0x3A => {
				if !Kind::FStart.exists(v) {
					return Err("frame start before 2.2".into());
				}
				if let Some(o) = cur.take() {
					m.frames.push(o);
				}
				cur = Some(Occ { id: be_i32(&payload), start: Some(payload), ..Default::default() });
			}
			0x37 | 0x38 => {
				let id = be_i32(&payload);
				let key = (payload[4], payload[5] != 0);
				if !spec::gte(v, (2, 2)) && code == 0x37 && cur.as_ref().map_or(true, |o| o.id != id) {
					if let Some(o) = cur.take() {
						m.frames.push(o);
					}
					cur = Some(Occ { id, ..Default::default() });
				}
				let o = cur.as_mut().ok_or("frame data before frame open")?;
				if o.id != id {
					return Err(format!("frame id mismatch at {}", at));
				}
				let e = o.chars.entry(key).or_default();
				let slot = if code == 0x37 { &mut e.pre } else { &mut e.post };
				if slot.is_some() {
					return Err("duplicate pre/post".into());
				}
				*slot = Some(payload);
			}
			0x3B => {
				let o = cur.as_mut().ok_or("item before frame open")?;
				if o.id != be_i32(&payload) {
					return Err("item id mismatch".into());
				}
				o.items.push(payload);
			}
			0x3C => {
				let o = cur.as_mut().ok_or("frame end before frame open")?;
				if o.id != be_i32(&payload) {
					return Err("frame end id mismatch".into());
				}
				o.end = Some(payload);
				m.frames.push(cur.take().unwrap());
			}
			0x35 | 0x36 => return Err("duplicate table/start".into()),
			_ => m.unknown_events += 1,
		}
	}
	if let Some(o) = cur.take() {
		m.frames.push(o);
	}
	m.actual_raw_len = c.p - raw_start;
	match c.u8()? {
		b'U' => {
			if c.take(10)? != b"\x08metadata{" {
				return Err("metadata key".into());
			}
			m.metadata = Some(read_meta(&mut c, 0)?);
			if c.u8()? != b'}' {
				return Err("closing brace".into());
			}
		}
		b'}' => {}
		x => return Err(format!("after raw: {:#x}", x)),
	}
	m.consumed = c.p;
	Ok(m)
}

/// Check that a model is "canonical well-formed" in the sense of C01: table in
/// canonical order with the sizes the version prescribes, events in recorder
/// order, no unknown events/junk. Returns the reason if not.
pub fn well_formed(m: &Model) -> Result<(), String> {
	let v = m.v();
	if !(spec::gte(v, (0, 1)) && !spec::gte(v, (3, 17))) {
		return Err("version out of 0.1..=3.16".into());
	}
	let mut want: Vec<(u8, usize)> = vec![
		(0x36, spec::start_size(v)),
		(0x37, Kind::Pre.payload_size(v)),
		(0x38, Kind::Post.payload_size(v)),
		(0x39, spec::end_size(v)),
	];
	if Kind::FStart.exists(v) {
		want.push((0x3A, Kind::FStart.payload_size(v)));
	}
	if Kind::Item.exists(v) {
		want.push((0x3B, Kind::Item.payload_size(v)));
		want.push((0x3C, Kind::FEnd.payload_size(v)));
	}
	if let Some(g) = &m.gecko {
		if !spec::gte(v, (3, 3)) {
			return Err("gecko before 3.3".into());
		}
		want.push((0x3D, (g.actual_size as u16) as usize));
		want.push((0x10, 516));
	}
	let got: Vec<(u8, usize)> = m.table.iter().map(|(c, s)| (*c, *s as usize)).collect();
	if got != want {
		return Err(format!("table {:?} != canonical {:?}", got, want));
	}
	if m.unknown_events > 0 || m.junk_after_end > 0 {
		return Err("unknown events / junk".into());
	}
	if m.declared_raw_len as usize != m.actual_raw_len {
		return Err("declared raw length != actual".into());
	}
	if m.ends.len() > 2 {
		return Err("more than two ends".into());
	}
	for o in &m.frames {
		if Kind::FStart.exists(v) != o.start.is_some() {
			return Err("frame start presence".into());
		}
		if Kind::FEnd.exists(v) != o.end.is_some() {
			return Err("frame end presence".into());
		}
		for e in o.chars.values() {
			if e.pre.is_none() || e.post.is_none() {
				return Err("pre without post".into());
			}
		}
	}
	Ok(())
}
