//! C04: rows, presence and item grouping mirror the event history.

use super::c01::case_input;
use crate::common::{self, Space, Step};
use crate::driver::{guard, CaseOut, Ctx, Monitor, Tier};
use crate::iofault::Src;
use crate::view;
use serde_json::json;

pub struct C04 {
	quick: Space,
	thorough: Space,
	fixtures: Vec<(String, Vec<u8>)>,
}

impl C04 {
	pub fn new() -> Self {
		C04 { quick: Space::new(false), thorough: Space::new(true), fixtures: common::fixtures() }
	}
}

impl Monitor for C04 {
	fn id(&self) -> &'static str {
		"C04"
	}
	fn rule(&self) -> String {
		"same workload space as C01 (histories x presence patterns x regimes: leader/follower absent in first/middle/last/all rows, port gaps, rollbacks, 0-15 items per frame, zero frames, no ports). Oracle from the reference model's occurrence list: row count = occurrences; id column = occurrence ids in file order; per character validity = 'had events in this occurrence'; unique random field values make a value found in the wrong row/port visible; item offsets delimit exactly each occurrence's item events; every leaf column and validity bitmap has one entry per row. Checked on the finished game (column structs and Arrow view) and on the incremental API's in-progress columns at end of stream. distinct = workload classes x observed structure classes.".into()
	}
	fn n_cases(&self, ctx: &Ctx) -> usize {
		self.fixtures.len() + ctx.tier.pick(&self.quick, &self.thorough).len()
	}
	fn min_classes(&self, tier: Tier) -> usize {
		tier.pick(60, 100)
	}
	fn run(&self, ctx: &Ctx, idx: usize) -> CaseOut {
		let mut out = CaseOut::default();
		let Some((desc, bytes, truth)) = case_input(ctx.tier.pick(&self.quick, &self.thorough), &self.fixtures, ctx.seed, idx, &mut out) else { return out };
		out.evals = 1;
		let game = match common::slp_read(&bytes, false, false) {
			Ok(g) => g,
			Err(f) => {
				out.violate(format!("read-failed;{}", f.sig()), format!("{}: {}", desc, f.text()), Some(&bytes));
				return out;
			}
		};
		let chars = view::occupied_chars(&truth.start);
		let exp = view::expected_cols(&truth, &chars);
		out.count("rows", exp.rows as u64);
		out.count("presence_bits", exp.presence.values().map(|v| v.len() as u64).sum());
		out.count("absent_bits", exp.presence.values().map(|v| v.iter().filter(|b| !**b).count() as u64).sum());
		out.count("items", exp.item_offsets.as_ref().map_or(0, |o| *o.last().unwrap_or(&0) as u64));
		let repeated = {
			let mut ids: Vec<i32> = truth.frames.iter().map(|o| o.id).collect();
			let n = ids.len();
			ids.sort();
			ids.dedup();
			n - ids.len()
		};
		out.count("rolled_back_occurrences", repeated as u64);
		let cols = view::cols_imm(&game.frames);
		let mut problems: Vec<String> = view::diff_expected(&exp, &cols, "columns", 4).structure;
		let ports = common::ports_of(&game.start);
		let version = game.start.slippi.version;
		if let Ok(arr) = guard(move || game.frames.into_struct_array(version, &ports)) {
			if let Ok(ac) = view::cols_arrow(&arr) {
				problems.extend(view::diff_expected(&exp, &ac, "arrow", 4).structure);
			}
		}
		// in-progress columns at the end of the stream
		let mut src = Src::of(&bytes);
		let mut last_rows = 0usize;
		let mut shrank = false;
		match common::incremental(&mut src, |st, step, _| {
			if let Step::Event(_) = step {
				let n = st.frames().id.values().len();
				if n < last_rows {
					shrank = true;
				}
				last_rows = n;
			}
		}) {
			Ok(st) => {
				let mc = view::cols_mut(st.frames());
				// before 3.0 the last row is still open (nothing closes it in the
				// incremental API): compare the completed prefix only
				let open_last = !crate::spec::gte(truth.v(), (3, 0)) && exp.rows > 0;
				let (e2, m2) = if open_last { (truncate_expected(&exp, exp.rows - 1), truncate_cols(&mc, exp.rows - 1)) } else { (exp.clone(), mc) };
				problems.extend(view::diff_expected(&e2, &m2, "in-progress", 4).structure);
				if shrank {
					problems.push("in-progress: row count decreased".into());
				}
			}
			Err(f) => problems.push(format!("in-progress: incremental parse failed: {}", f.text())),
		}
		for msg in problems.iter().take(4) {
			let kind = if msg.contains("presence") {
				"presence"
			} else if msg.contains("item offsets") {
				"item-grouping"
			} else if msg.contains("rows") {
				"row-count"
			} else if msg.contains("entries") || msg.contains("bits want") {
				"column-length"
			} else if msg.contains("misplacement") {
				"record-misplacement"
			} else {
				"other"
			};
			out.violate(format!("structure;{};{}", msg.split(':').next().unwrap_or(""), kind), format!("{}: {}", desc, msg), Some(&bytes));
		}
		if idx % 60 == 0 {
			out.sample = Some(json!({"case": idx, "input": desc, "rows": exp.rows, "characters": chars.len(), "observed": if problems.is_empty() { "rows/presence/items mirror history" } else { "MISMATCH" }}));
		}
		out
	}
}

pub fn truncate_expected(e: &view::Expected, n: usize) -> view::Expected {
	let mut e = e.clone();
	e.rows = n;
	for (path, (_, col)) in e.leaves.iter_mut() {
		if !path.starts_with("item.") {
			col.truncate(n);
		}
	}
	for v in e.presence.values_mut() {
		v.truncate(n);
	}
	e
}

pub fn truncate_cols(c: &view::Cols, n: usize) -> view::Cols {
	let mut c = c.clone();
	c.rows = c.rows.min(n);
	for (path, (_, col)) in c.leaves.iter_mut() {
		if !path.starts_with("item.") {
			col.truncate(n);
		}
	}
	for (path, v) in c.validity.iter_mut() {
		if !path.starts_with("item") {
			if let Some(b) = v {
				b.truncate(n);
			}
		}
	}
	c
}
