//! C06: reading never panics, aborts or hangs, whatever bytes it is given.

use crate::common::{self, Fail};
use crate::driver::{Lane, LaneKind, norm_loc, norm_msg, watched, CaseOut, Ctx, Monitor, Tier, Watched};
use crate::iofault::{Policy, Src, Stats};
use crate::mutate::{self, OPS};
use crate::rng::Rng;
use crate::{gen, model};
use serde_json::json;
use std::io;
use std::sync::atomic::{AtomicUsize, Ordering::Relaxed};
use std::sync::Arc;
use std::time::Duration;

pub struct Seed {
	pub name: String,
	pub bytes: Vec<u8>,
	pub model: model::Model,
}

pub fn seeds() -> Vec<Seed> {
	let mut out = vec![];
	let shapes: Vec<((u8, u8, u8), Vec<(u8, bool)>, bool)> = vec![
		((0, 1, 0), vec![(0, false), (1, false)], false),
		((1, 0, 0), vec![(0, true), (3, false)], true),
		((1, 7, 1), vec![(1, false), (2, false)], false),
		((2, 0, 1), vec![(0, false), (1, true)], true),
		((2, 2, 0), vec![(0, false), (1, false)], true),
		((3, 0, 0), vec![(0, true), (1, false)], true),
		((3, 5, 0), vec![(2, false), (3, false)], false),
		((3, 7, 0), vec![(0, false), (1, false)], true),
		((3, 12, 0), vec![(0, true), (1, true)], true),
		((3, 16, 0), vec![(0, false), (1, false), (2, false), (3, false)], true),
		((3, 16, 0), vec![(0, true)], false),
		((3, 16, 0), vec![], false),
	];
	for (i, (ver, ports, absence)) in shapes.into_iter().enumerate() {
		let mut rng = Rng::derive(0xC06, i as u64);
		let nchars: usize = ports.iter().map(|(_, i)| 1 + *i as usize).sum();
		let v = (ver.0, ver.1);
		let mut s = gen::base_spec(ver, ports, 0);
		s.frames = if nchars == 0 && !crate::spec::gte(v, (2, 2)) { vec![] } else { gen::gen_frames(&mut rng, v, nchars, 5, i % 2 == 1, if absence { 3 } else { 0 }, 2) };
		s.rich_start = i % 2 == 0;
		s.metadata = if i % 4 == 3 { None } else { Some(gen::gen_meta(&mut rng, 2, 3)) };
		if i == 5 || i == 9 {
			// two seeds carry several KiB of mostly non-ASCII metadata (1- to 4-byte characters at
			// shifting alignments): whatever the reader does with the rendered text (log lines,
			// previews, error messages) meets multi-byte characters at every byte offset
			use crate::model::MVal;
			let mut m: crate::model::Meta = vec![("startAt".into(), MVal::Str("2020年8月16日 午前7時2分53秒".into())), ("lastFrame".into(), MVal::Int(11238))];
			for (j, ch) in ['あ', 'é', '😀', '漢', 'ß', '\u{10ffff}', 'ｱ', '年'].iter().enumerate() {
				let mut t = "x".repeat((i + j) % 4);
				while t.len() + ch.len_utf8() <= 250 {
					t.push(*ch);
				}
				m.push((format!("k{}{}", j, "é".repeat(j % 3)), MVal::Str(t)));
			}
			m.push(("players".into(), MVal::Map(vec![("0".into(), MVal::Map(vec![("names".into(), MVal::Map(vec![("netplay".into(), MVal::Str("ﾌｫｯｸｽ".into())), ("code".into(), MVal::Str("ＡＢ＃１".into()))]))]))])));
			s.metadata = Some(m);
		}
		s.ends = if i % 5 == 4 { 0 } else if i % 5 == 3 { 2 } else { 1 };
		if crate::spec::gte(v, (3, 3)) && i % 2 == 0 {
			// 1, 2 or 3 message-splitter blocks (runs of >= 2 blocks have inner boundaries)
			s.gecko_blocks = 1 + (i / 2) % 3;
			s.gecko_tail = 9;
		}
		let b = gen::build(&s, &mut rng);
		out.push(Seed { name: s.describe(), bytes: b.bytes, model: b.truth });
	}
	out
}

#[derive(Clone, Debug)]
pub enum Outcome {
	Ok,
	Err(String),
	Panic(String, String),
	Spin,
}

pub const MODES: [&str; 6] = ["oneshot", "oneshot+hash", "oneshot+skip", "oneshot+skip+hash", "incremental", "oneshot+debugdir"];

/// Run one input under one mode with a fresh instrumented source.
pub fn run_mode(bytes: &Arc<Vec<u8>>, mode: usize, fault: Option<(usize, io::ErrorKind)>, dbg_dir: &std::path::Path, on_stats: impl FnOnce(Arc<Stats>)) -> (Outcome, Arc<Stats>) {
	let mut src = Src::new(bytes.clone(), Policy::Whole);
	if let Some((k, kind)) = fault {
		src = src.with_fault(k, kind);
	}
	let stats = src.stats();
	// publish the counters to the supervisor before the library is entered
	on_stats(stats.clone());
	let r: Result<(), Fail> = match mode {
		0..=3 => common::slp_read_src(src, mode >= 2, mode % 2 == 1).map(|_| ()),
		4 => {
			let mut src = src;
			common::incremental(&mut src, |_, _, _| {}).map(|_| ())
		}
		_ => {
			let _ = std::fs::remove_dir_all(dbg_dir);
			let opts = peppi::io::slippi::de::Opts { skip_frames: false, compute_hash: false, debug: Some(peppi::io::slippi::de::Debug { dir: dbg_dir.to_path_buf() }) };
			let r = match crate::driver::guard(move || peppi::io::slippi::read(src, Some(&opts))) {
				Ok(Ok(_)) => Ok(()),
				Ok(Err(e)) => Err(Fail::Err(e.to_string())),
				Err(p) => Err(Fail::Panic(p)),
			};
			let _ = std::fs::remove_dir_all(dbg_dir);
			r
		}
	};
	if stats.spun() {
		return (Outcome::Spin, stats);
	}
	let o = match r {
		Ok(()) => Outcome::Ok,
		Err(Fail::Err(e)) => Outcome::Err(e),
		Err(Fail::Panic(p)) => Outcome::Panic(p.loc, p.msg),
	};
	(o, stats)
}

pub struct C06 {
	seeds: Vec<Seed>,
}

impl C06 {
	pub fn new() -> Self {
		C06 { seeds: seeds() }
	}
	fn n_mut_cases(&self, tier: Tier) -> usize {
		// (seed, operator, round)
		self.seeds.len() * OPS.len() * tier.pick(1, 40)
	}
	fn n_fault_cases(&self) -> usize {
		self.seeds.len() * 5
	}
}

const FAULT_KINDS: [io::ErrorKind; 4] = [io::ErrorKind::Other, io::ErrorKind::BrokenPipe, io::ErrorKind::UnexpectedEof, io::ErrorKind::TimedOut];

fn regime(m: &model::Model) -> &'static str {
	let v = m.v();
	if crate::spec::gte(v, (3, 0)) {
		"start+end"
	} else if crate::spec::gte(v, (2, 2)) {
		"start-only"
	} else {
		"none"
	}
}

impl Monitor for C06 {
	fn id(&self) -> &'static str {
		"C06"
	}
	fn level(&self) -> &'static str {
		"fault_enumeration"
	}
	fn address_space_limit(&self) -> Option<u64> {
		// the seeds are a few KB: nothing the reader does with them needs anywhere near 2 GiB
		Some(2 << 30)
	}
	fn rule(&self) -> String {
		format!("inputs = {} corruption operators ({}) applied with fresh randomness to {} small valid seed replays covering the three framing regimes, ICs/non-ICs, gecko/no gecko, end/no end/doubled end, metadata/none; each mutated input is executed under {} modes ({}); plus I/O-fault enumeration: for every seed, mode and error kind, an injected io::Error at EVERY read call k (until the fault is no longer delivered). Monitors: panic hook+catch_unwind (any panic = violation), process death observed by the driver with write-ahead attribution (stack overflow/abort = violation); every worker process runs under RLIMIT_AS = 2 GiB (a memory-limited host), so a reader that sizes an allocation from a length field of the file dies with an allocation-failure abort, which counts when the block asked for is >= 16 MiB; non-consuming loop (source polled at EOF > {} times, or thread burning >= 20 s CPU / sleeping with static source counters), delivered fault must surface as Err; history control: right after every 16th hostile input and at the end of each case the pristine seed is read again in the same process and must still serialise to itself. One evaluation = one (input, mode) execution. distinct = (operator, regime) x outcome classes + distinct error messages reached.", OPS.len(), OPS.join(", "), self.seeds.len(), MODES.len(), MODES.join(", "), crate::iofault::EOF_POLL_LIMIT)
	}
	fn assumptions(&self) -> Vec<String> {
		vec!["'all byte strings' is explored by structure-aware operators x positions; unreached reader branches carry no verdict".into(), "built with debug-assertions and overflow-checks on (as cargo test does): arithmetic overflow panics count".into(), "allocation-failure aborts count only under the deliberate 2 GiB address-space limit and only for blocks >= 16 MiB (the inputs are a few KB); any other allocation failure is inconclusive; the sanitizer lanes (ASan, valgrind, Miri) run without the limit".into()]
	}
	fn lanes(&self, _tier: Tier) -> Vec<Lane> {
		// Miri: 48 of the 324 (seed, operator) pairs per run, rotated by nothing but the list order
		vec![
			Lane { kind: LaneKind::Coverage(&["src/io/slippi/de.rs", "src/io/ubjson/de.rs", "src/io/mod.rs", "src/frame/mutable.rs", "src/game/shift_jis.rs"]), name: "reach", shards: vec![0], nshards: 1 },
			Lane { kind: LaneKind::AsanQuick, name: "asan-quick", shards: vec![0], nshards: 1 },
			Lane { kind: LaneKind::Fuzz(600), name: "fuzz", shards: vec![0], nshards: 1 },
			Lane { kind: LaneKind::Miri, name: "hostile", shards: (0..324).step_by(7).collect(), nshards: 324 },
		]
	}
	fn n_cases(&self, ctx: &Ctx) -> usize {
		self.n_mut_cases(ctx.tier) + self.n_fault_cases()
	}
	fn min_classes(&self, tier: Tier) -> usize {
		tier.pick(80, 120)
	}
	fn run(&self, ctx: &Ctx, idx: usize) -> CaseOut {
		let mut out = CaseOut::default();
		let dbg_dir = crate::driver::verif_root().join("work").join("C06").join(format!("dbg-{}", std::process::id()));
		let nm = self.n_mut_cases(ctx.tier);
		if idx < nm {
			let seed = &self.seeds[idx % self.seeds.len()];
			let op = OPS[(idx / self.seeds.len()) % OPS.len()];
			let k_max = ctx.tier.pick(250u64, 400);
			for k in 0..k_max {
				if !ctx.mark(k) {
					continue;
				}
				let mut rng = Rng::derive(ctx.seed ^ ((idx as u64) << 20), k);
				let (bytes, what) = mutate::apply(op, &seed.bytes, &seed.model, &mut rng);
				let bytes = Arc::new(bytes);
				let with_dbg = k % 25 == 0;
				let cur_mode = Arc::new(AtomicUsize::new(0));
				let cur_stats: Arc<std::sync::Mutex<Option<Arc<Stats>>>> = Arc::new(std::sync::Mutex::new(None));
				let (b2, cm2, cs2, dd) = (bytes.clone(), cur_mode.clone(), cur_stats.clone(), dbg_dir.clone());
				let control = k % 16 == 15 && ctx.only_sub.is_none();
				let pristine = Arc::new(seed.bytes.clone());
				let progress_stats = cur_stats.clone();
				let progress_mode = cur_mode.clone();
				let w = watched(
					move || {
						let mut res = vec![];
						for mode in 0..MODES.len() {
							if mode == 5 && !with_dbg {
								continue;
							}
							cm2.store(mode, Relaxed);
							let (o, _) = run_mode(&b2, mode, None, &dd, |st| *cs2.lock().unwrap() = Some(st));
							res.push((mode, o));
						}
						// history control ON THIS THREAD (thread-local state of the failed parses lives
						// here): the pristine seed must still read to the same game right afterwards
						if control {
							let c = match common::slp_read(&pristine, false, false).and_then(|g| common::slp_write(&g)) {
								Ok(w) if w == *pristine => Outcome::Ok,
								Ok(_) => Outcome::Err("DIFFERENT".into()),
								Err(Fail::Err(e)) => Outcome::Err(e),
								Err(Fail::Panic(p)) => Outcome::Panic(p.loc, p.msg),
							};
							res.push((usize::MAX, c));
						}
						res
					},
					move || {
						let s = progress_stats.lock().unwrap().clone();
						progress_mode.load(Relaxed) * 1_000_000_007 + s.map_or(0, |s| s.calls() + s.bytes())
					},
					Duration::from_secs(10),
					Duration::from_secs(600),
				);
				let results = match w {
					Watched::Done(r) => r,
					Watched::Sleeping(e) | Watched::Spinning(e) => {
						let mode = cur_mode.load(Relaxed);
						out.evals += 1;
						out.violate_sub(k, format!("hang;mode={};op={}", MODES[mode], op), format!("seed [{}] after [{}], mode {}: {}", seed.name, what, MODES[mode], e), Some(&bytes));
						out.abandon_worker = true;
						return out;
					}
					Watched::Timeout(e) => {
						out.inconclusive.push(format!("seed [{}] after [{}]: {}", seed.name, what, e));
						out.abandon_worker = true;
						return out;
					}
				};
				for (mode, o) in results {
					out.evals += 1;
					if mode == usize::MAX {
						match o {
							Outcome::Ok => out.count("pristine_seed_identical_right_after_hostile_input", 1),
							Outcome::Err(e) if e == "DIFFERENT" => out.violate_sub(k, "valid-input-read-differently-after-hostile-input", format!("seed [{}] read right after [{}] on the same thread no longer serialises to itself: state of the failed parse leaked into the next one", seed.name, what), Some(&bytes)),
							Outcome::Err(e) => out.violate_sub(k, format!("valid-input-rejected-after-hostile-input;{}", norm_msg(&e)), format!("seed [{}] read right after [{}] on the same thread: {}", seed.name, what, e), Some(&bytes)),
							Outcome::Panic(loc, msg) => out.violate_sub(k, format!("panic;{};{}", norm_loc(&loc), norm_msg(&msg)), format!("seed [{}] pristine after [{}]: panic at {}: {}", seed.name, what, loc, msg), Some(&bytes)),
							Outcome::Spin => {}
						}
						continue;
					}
					let oc = match &o {
						Outcome::Ok => "ok",
						Outcome::Err(_) => "err",
						Outcome::Panic(..) => "PANIC",
						Outcome::Spin => "SPIN",
					};
					out.count(oc, 1);
					out.class(format!("{}|{}|{}", op, regime(&seed.model), oc));
					match o {
						Outcome::Ok => {}
						Outcome::Err(e) => out.observe("error_messages", norm_msg(&e)),
						Outcome::Panic(loc, msg) => {
							out.observe("panic_sites", format!("{} {}", norm_loc(&loc), norm_msg(&msg)));
							out.violate_sub(k, format!("panic;{};{}", norm_loc(&loc), norm_msg(&msg)), format!("seed [{}] after [{}], mode {}: panic at {}: {}", seed.name, what, MODES[mode], loc, msg), Some(&bytes));
						}
						Outcome::Spin => out.violate_sub(k, format!("eof-spin;mode={}", MODES[mode]), format!("seed [{}] after [{}], mode {}: source polled at EOF more than {} times", seed.name, what, MODES[mode], crate::iofault::EOF_POLL_LIMIT), Some(&bytes)),
					}
				}
				if k == 0 && idx % 29 == 0 {
					out.sample = Some(json!({"case": idx, "seed": seed.name, "operator": op, "mutation": what, "input_bytes": bytes.len()}));
				}
			}
			// history control: after hundreds of hostile inputs in this process the pristine seed must
			// still be accepted in every mode (no state may survive a failed read)
			if ctx.only_sub.is_none() {
				let pristine = Arc::new(seed.bytes.clone());
				for mode in 0..5 {
					if mode >= 2 && mode <= 3 && seed.model.ends.is_empty() {
						continue; // skip-frames needs a finished replay
					}
					let (o, _) = run_mode(&pristine, mode, None, &dbg_dir, |_| {});
					out.evals += 1;
					match o {
						Outcome::Ok => out.count("pristine_seed_accepted_after_hostile_inputs", 1),
						Outcome::Err(e) => out.violate(format!("valid-input-rejected-after-hostile-inputs;mode={}", MODES[mode]), format!("seed [{}] is rejected in mode {} after the hostile inputs of this case: {}", seed.name, MODES[mode], e), Some(&seed.bytes)),
						Outcome::Panic(loc, msg) => out.violate(format!("panic;{};{}", norm_loc(&loc), norm_msg(&msg)), format!("seed [{}] pristine, mode {}: panic at {}: {}", seed.name, MODES[mode], loc, msg), Some(&seed.bytes)),
						Outcome::Spin => out.violate("eof-spin;pristine", format!("seed [{}] pristine: EOF spin", seed.name), Some(&seed.bytes)),
					}
				}
			}
		} else {
			// I/O fault enumeration
			let j = idx - nm;
			let seed = &self.seeds[j % self.seeds.len()];
			let mode = (j / self.seeds.len()) % 5;
			let bytes = Arc::new(seed.bytes.clone());
			let mut delivered = 0u64;
			'kinds: for (ki, kind) in FAULT_KINDS.iter().enumerate() {
				let mut k = 0usize;
				loop {
					let sub = (ki as u64) << 32 | k as u64;
					if ctx.mark(sub) {
						let (o, st) = run_mode(&bytes, mode, Some((k, *kind)), &dbg_dir, |_| {});
						let was_delivered = st.fault_delivered();
						if !was_delivered {
							// k is beyond the number of read calls: enumeration complete
							if ctx.only_sub.is_none() {
								out.count("read_calls_per_file", k as u64);
								continue 'kinds;
							}
						} else {
							delivered += 1;
							out.evals += 1;
							match o {
								Outcome::Err(e) => {
									out.count("fault_surfaced_as_err", 1);
									out.observe("fault_error_messages", norm_msg(&e));
								}
								Outcome::Ok => out.violate_sub(sub, format!("io-fault-swallowed;mode={}", MODES[mode]), format!("seed [{}], mode {}: {:?} injected at read call {} but the reader returned Ok", seed.name, MODES[mode], kind, k), Some(&bytes)),
								Outcome::Panic(loc, msg) => out.violate_sub(sub, format!("panic;{};{}", norm_loc(&loc), norm_msg(&msg)), format!("seed [{}], mode {}: {:?} injected at read call {} -> panic at {}: {}", seed.name, MODES[mode], kind, k, loc, msg), Some(&bytes)),
								Outcome::Spin => out.violate_sub(sub, "eof-spin;fault", format!("seed [{}]: spin after injected fault at call {}", seed.name, k), Some(&bytes)),
							}
						}
					}
					k += 1;
					if k > 200_000 {
						break;
					}
				}
			}
			// a stream whose seek fails (unseekable behind a Seek facade): whatever mode seeks must
			// surface the failure
			{
				let src = Src::new(bytes.clone(), Policy::Whole).with_failing_seek();
				let stats = src.stats();
				let r = common::slp_read_src(src, mode >= 2 && mode <= 3, mode % 2 == 1);
				if stats.fault_delivered() {
					out.evals += 1;
					match r {
						Err(Fail::Err(_)) => out.count("seek_failure_surfaced_as_err", 1),
						Ok(_) => out.violate("seek-fault-swallowed", format!("seed [{}], mode {}: seek failed but the reader returned Ok", seed.name, MODES[mode]), Some(&bytes)),
						Err(Fail::Panic(p)) => out.violate(format!("panic;{};{}", norm_loc(&p.loc), norm_msg(&p.msg)), format!("seed [{}]: failing seek -> panic at {}: {}", seed.name, p.loc, p.msg), Some(&bytes)),
					}
				}
			}
			out.class(format!("io-fault|{}|{}", regime(&seed.model), MODES[mode]));
			out.count("faults_delivered", delivered);
			out.sample = Some(json!({"case": idx, "seed": seed.name, "mode": MODES[mode], "faults_delivered_one_per_read_call_x_4_kinds": delivered}));
		}
		out
	}
}


/// Judge one arbitrary input with the C06 monitors (every .slp reader mode) on a
/// supervised thread. Prints `signature:` lines; exit 1 if any.
pub fn classify(path: &std::path::Path) -> i32 {
	let Ok(bytes) = std::fs::read(path) else {
		println!("cannot read {}", path.display());
		return 2;
	};
	let bytes = Arc::new(bytes);
	let dbg = std::path::PathBuf::from("/nonexistent-debug-dir");
	let cur: Arc<std::sync::Mutex<Option<Arc<Stats>>>> = Arc::new(std::sync::Mutex::new(None));
	let (b2, c2) = (bytes.clone(), cur.clone());
	let w = watched(
		move || {
			let mut res = vec![];
			for mode in 0..5 {
				let (o, _) = run_mode(&b2, mode, None, &dbg, |st| *c2.lock().unwrap() = Some(st));
				res.push((MODES[mode].to_string(), o));
			}
			res
		},
		move || cur.lock().unwrap().clone().map_or(0, |s| s.calls() + s.bytes()),
		Duration::from_secs(15),
		Duration::from_secs(300),
	);
	let mut bad = 0;
	match w {
		Watched::Done(res) => {
			for (mode, o) in res {
				match o {
					Outcome::Panic(loc, msg) => {
						println!("signature: panic;{};{}", norm_loc(&loc), norm_msg(&msg));
						println!("  mode {}: panic at {}: {}", mode, loc, msg);
						bad += 1;
					}
					Outcome::Spin => {
						println!("signature: eof-spin;mode={}", mode);
						bad += 1;
					}
					_ => {}
				}
			}
		}
		Watched::Sleeping(e) | Watched::Spinning(e) => {
			println!("signature: hang;classify\n  {}", e);
			bad += 1;
		}
		Watched::Timeout(e) => println!("inconclusive: {}", e),
	}
	if bad > 0 {
		1
	} else {
		0
	}
}
