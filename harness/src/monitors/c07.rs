//! C07: a replay cut short at any byte never yields a partial game, panic or hang.

use super::c06::{seeds, Seed};
use crate::common::{self, Comp, Fail};
use crate::driver::{Lane, LaneKind, norm_loc, norm_msg, watched, CaseOut, Ctx, Monitor, Tier, Watched};
use crate::rng::Rng;
use serde_json::json;
use std::sync::atomic::{AtomicUsize, Ordering::Relaxed};
use std::sync::Arc;
use std::time::Duration;

struct Slpp {
	seed: usize,
	comp: Comp,
	bytes: Arc<Vec<u8>>,
	hash: Option<String>,
	quirk: Option<bool>,
}

pub struct C07 {
	seeds: Vec<Seed>,
	slpp: Vec<Slpp>,
	fixtures: Vec<(String, Vec<u8>)>,
}

const CHUNK: usize = 4096;

impl C07 {
	pub fn new() -> Self {
		let mut seeds = seeds();
		// a larger history with rollbacks and items, and a pre-3.0 one
		for (i, ver) in [(3u8, 16u8, 0u8), (2, 0, 1), (3, 9, 0)].into_iter().enumerate() {
			let mut rng = Rng::derive(0xC07, i as u64);
			let mut s = crate::gen::random_spec(&mut rng, ver, 40);
			s.ports = vec![(0, true), (2, false)];
			s.ptypes = vec![0, 1];
			s.frames = crate::gen::gen_frames(&mut rng, (ver.0, ver.1), 3, 40, true, 2, 4);
			s.ends = 1;
			let b = crate::gen::build(&s, &mut rng);
			seeds.push(Seed { name: s.describe(), bytes: b.bytes, model: b.truth });
		}
		// the same files as a *newer* recorder would label them (version above the supported maximum,
		// identical payload sizes): a reader that treats "newer than I know" specially must still reject
		// every proper prefix. Only the version bytes of Game Start change. (.slpp cannot hold them: C09.)
		let n0 = seeds.len();
		for (k, nv) in [(3u8, 17u8, 0u8), (3, 255, 7), (4, 0, 0), (255, 255, 255)].into_iter().enumerate() {
			// sources: the seeds whose layout is the newest one (payload sizes a newer file would also have)
			let newest: Vec<usize> = (0..n0).filter(|i| seeds[*i].model.version.0 == 3 && seeds[*i].model.version.1 >= 14 && seeds[*i].bytes.len() >= 32 && seeds[*i].bytes[15] == 0x35).collect();
			if newest.is_empty() {
				continue;
			}
			let src = &seeds[newest[k % newest.len()]];
			let vo = 15 + 1 + src.bytes[16] as usize + 1;
			if src.bytes.get(vo - 1) != Some(&0x36) || src.bytes[vo] != src.model.version.0 || src.bytes[vo + 1] != src.model.version.1 {
				continue;
			}
			let mut b = src.bytes.clone();
			b[vo] = nv.0;
			b[vo + 1] = nv.1;
			b[vo + 2] = nv.2;
			let mut m = src.model.clone();
			m.version = nv;
			seeds.push(Seed { name: format!("{} relabelled v{}.{}.{}", src.name, nv.0, nv.1, nv.2), bytes: b, model: m });
		}
		let mut slpp = vec![];
		for (i, s) in seeds.iter().enumerate() {
			for comp in Comp::ALL {
				// hash requested so that the hash survives in peppi.json
				if let Ok(g) = common::slp_read(&s.bytes, false, true) {
					let hash = g.hash.clone();
					let quirk = g.quirks.map(|q| q.double_game_end);
					if let Ok(b) = common::slpp_write(g, comp) {
						slpp.push(Slpp { seed: i, comp, bytes: Arc::new(b), hash, quirk });
					}
				}
			}
		}
		C07 { seeds, slpp, fixtures: common::fixtures() }
	}
	fn slpp_used(&self, tier: Tier) -> Vec<usize> {
		// quick: the archives of 4 seeds (all compressions); thorough: all
		(0..self.slpp.len()).filter(|i| tier == Tier::Thorough || [1usize, 4, 9, 12].contains(&self.slpp[*i].seed)).collect()
	}
	fn layout(&self, tier: Tier) -> (usize, Vec<(usize, usize)>, usize) {
		let n_slp = self.seeds.len() * 4;
		let mut chunks = vec![];
		for i in self.slpp_used(tier) {
			let n = self.slpp[i].bytes.len();
			for c in 0..(n + CHUNK - 1) / CHUNK {
				chunks.push((i, c));
			}
		}
		let n_fix = if tier == Tier::Thorough { self.fixtures.len() * 2 } else { 4 };
		(n_slp, chunks, n_fix)
	}
}

enum SlpOutcome {
	Rejected(String),
	Accepted(usize),
	Panic(String, String),
	Spin,
}

/// One truncated .slp read through the instrumented source (so that a loop
/// polling at EOF is broken and reported instead of blocking the worker).
fn slp_cut_run(data: &Arc<Vec<u8>>, skip: bool, hash: bool) -> SlpOutcome {
	let src = crate::iofault::Src::new(data.clone(), crate::iofault::Policy::Whole);
	let stats = src.stats();
	let r = common::slp_read_src(src, skip, hash);
	if stats.spun() {
		return SlpOutcome::Spin;
	}
	match r {
		Err(Fail::Err(e)) => SlpOutcome::Rejected(e),
		Ok(g) => SlpOutcome::Accepted(g.frames.id.len()),
		Err(Fail::Panic(p)) => SlpOutcome::Panic(p.loc, p.msg),
	}
}

fn slp_cut_judge(out: &mut CaseOut, name: &str, total: usize, prefix: &[u8], n: usize, skip: bool, hash: bool, sub: u64, o: SlpOutcome) {
	out.evals += 1;
	match o {
		SlpOutcome::Rejected(e) => {
			out.count("slp_prefix_rejected", 1);
			out.observe("slp_error_messages", norm_msg(&e));
		}
		SlpOutcome::Accepted(rows) => out.violate_sub(sub, format!("slp-prefix-accepted;skip={}", skip), format!("[{}] cut at {} of {} (skip={} hash={}): read returned Ok with {} frames instead of an error", name, n, total, skip, hash, rows), Some(prefix)),
		SlpOutcome::Panic(loc, msg) => out.violate_sub(sub, format!("panic;{};{}", norm_loc(&loc), norm_msg(&msg)), format!("[{}] cut at {} of {} (skip={}): panic at {}: {}", name, n, total, skip, loc, msg), Some(prefix)),
		SlpOutcome::Spin => out.violate_sub(sub, format!("slp-prefix-eof-spin;skip={};hash={}", skip, hash), format!("[{}] cut at {} of {} (skip={} hash={}): the reader keeps polling the exhausted source (> {} reads at EOF) instead of failing", name, n, total, skip, hash, crate::iofault::EOF_POLL_LIMIT), Some(prefix)),
	}
}

/// All given cuts of one .slp on a supervised thread; the cut index is the
/// progress measure for the hang rules.
fn slp_cuts(out: &mut CaseOut, ctx: &Ctx, name: &str, bytes: &[u8], cuts: Vec<(usize, bool, bool)>) {
	let cur = Arc::new(AtomicUsize::new(0));
	let cur2 = cur.clone();
	let data = bytes.to_vec();
	let only = ctx.only_sub;
	let cuts2 = cuts.clone();
	// what the intact file serialises to before any truncated read happened on this thread
	let reference = common::slp_read(bytes, false, false).ok().and_then(|g| common::slp_write(&g).ok());
	let w = watched(
		move || {
			let mut res = vec![];
			for (k, (n, skip, hash)) in cuts2.iter().enumerate() {
				if only.map_or(false, |s| s != *n as u64) {
					continue;
				}
				cur2.store(k, Relaxed);
				let d = Arc::new(data[..*n].to_vec());
				res.push((k, slp_cut_run(&d, *skip, *hash)));
				// history control with content comparison right after a rejected prefix (state left
				// behind by a failed parse may heal later, so the end-of-batch control is not enough)
				if k % 97 == 96 && only.is_none() {
					let now = common::slp_read(&data, false, false).ok().and_then(|g| common::slp_write(&g).ok());
					if now != reference {
						res.push((usize::MAX - 1 - k, SlpOutcome::Spin));
					}
				}
			}
			// history control: the intact file still reads on this thread after all the rejected prefixes
			if only.is_none() && !cuts2.is_empty() {
				res.push((usize::MAX, slp_cut_run(&Arc::new(data.clone()), false, false)));
			}
			res
		},
		{
			let c = cur.clone();
			move || c.load(Relaxed)
		},
		Duration::from_secs(6),
		Duration::from_secs(900),
	);
	match w {
		Watched::Done(res) => {
			for (k, o) in res {
				if k != usize::MAX && k > usize::MAX / 2 {
					let at = usize::MAX - 1 - k;
					out.evals += 1;
					out.violate("slp-intact-read-differs-after-truncated-read", format!("[{}] right after the rejected prefix of {} bytes the intact file no longer reads to the same game (state of a failed parse leaked)", name, cuts[at].0), Some(bytes));
					continue;
				}
				if k == usize::MAX {
					match o {
						SlpOutcome::Accepted(_) => out.count("intact_file_reads_after_rejected_prefixes", 1),
						SlpOutcome::Rejected(e) => out.violate("slp-intact-read-fails-after-truncated-reads", format!("[{}] after {} rejected prefixes on the same thread the intact file is rejected: {}", name, cuts.len(), e), Some(bytes)),
						_ => out.violate("slp-intact-read-fails-after-truncated-reads", format!("[{}] intact file read misbehaves after {} rejected prefixes", name, cuts.len()), Some(bytes)),
					}
					continue;
				}
				let (n, skip, hash) = cuts[k];
				slp_cut_judge(out, name, bytes.len(), &bytes[..n], n, skip, hash, n as u64, o);
			}
		}
		Watched::Sleeping(e) | Watched::Spinning(e) => {
			let (n, skip, hash) = cuts[cur.load(Relaxed).min(cuts.len() - 1)];
			out.evals += 1;
			out.violate_sub(n as u64, format!("slp-prefix-hang;skip={};hash={}", skip, hash), format!("[{}] cut at {} of {} (skip={} hash={}): read does not return: {}", name, n, bytes.len(), skip, hash, e), Some(&bytes[..n]));
			out.abandon_worker = true;
		}
		Watched::Timeout(e) => {
			out.inconclusive.push(format!("[{}] near cut {}: {}", name, cuts[cur.load(Relaxed).min(cuts.len() - 1)].0, e));
			out.abandon_worker = true;
		}
	}
}

#[derive(Debug)]
enum SlppOutcome {
	Rejected(String),
	Full,
	Partial(String),
	Panic(String, String),
}

fn slpp_cut(full_slp: &[u8], hash: &Option<String>, quirk: Option<bool>, prefix: &[u8], skip: bool) -> SlppOutcome {
	match common::slpp_read(prefix, skip) {
		Err(Fail::Err(e)) => SlppOutcome::Rejected(e),
		Err(Fail::Panic(p)) => SlppOutcome::Panic(p.loc, p.msg),
		Ok(g) => {
			if skip {
				// skip-frames result: start/end/metadata must be the full game's
				return match common::slp_read(full_slp, false, false) {
					Ok(want) => {
						if common::same_start(&g.start, &want.start) && g.end == want.end && g.metadata == want.metadata && g.gecko_codes == want.gecko_codes && g.frames.id.len() == 0 && &g.hash == hash {
							SlppOutcome::Full
						} else {
							SlppOutcome::Partial("skip-frames result differs from the full file's start/end/metadata/gecko/hash".into())
						}
					}
					Err(f) => SlppOutcome::Partial(format!("reference read failed: {}", f.text())),
				};
			}
			if &g.hash != hash || g.quirks.map(|q| q.double_game_end) != quirk {
				return SlppOutcome::Partial(format!("hash/quirks {:?}/{:?} differ from the full file's", g.hash, g.quirks.map(|q| q.double_game_end)));
			}
			match common::slp_write(&g) {
				Ok(w) if w == full_slp => SlppOutcome::Full,
				Ok(w) => SlppOutcome::Partial(format!("game from the truncated archive serialises differently: {}", common::first_diff(full_slp, &w))),
				Err(f) => SlppOutcome::Partial(format!("game from the truncated archive cannot be written: {}", f.text())),
			}
		}
	}
}

impl Monitor for C07 {
	fn id(&self) -> &'static str {
		"C07"
	}
	fn level(&self) -> &'static str {
		"fault_enumeration"
	}
	fn rule(&self) -> String {
		format!("crash points = EVERY byte offset 0..len-1 of {} small generated .slp files (all three framing regimes, ICs, gecko, end/no end/doubled end, metadata/none), each read with skip-frames off/on x hash off/on -> must be Err; and every byte offset of the .slpp archives peppi::write produces from them under none/LZ4/ZSTD (quick: archives of 4 seeds; thorough: all writable seeds), read with skip-frames off and on -> must be Err or a game that serialises to exactly the full .slp with the same hash/quirks; never a panic; after each batch of rejected prefixes the intact file/archive is read again on the same thread and must still be accepted as the full game (no state survives a failed read); hangs decided by syscall+progress evidence (thread in nanosleep with static cut counter) or >=20 s CPU without progress. Fixtures: header/table/start offsets, +-2 bytes around event boundaries, 512-byte tar boundaries +-1 and random offsets. One evaluation = one (file, offset, options) read. Exhaustive per explored file. distinct = (format, compression, outcome, region) classes.", self.seeds.len())
	}
	fn assumptions(&self) -> Vec<String> {
		vec!["versions 3.0-3.6 and games without occupied ports cannot be written to .slpp (known finding under C02/C14) and are therefore only covered on the .slp side".into(), "exhaustive over offsets of the explored files only".into()]
	}
	fn exhaustive(&self, _tier: Tier) -> bool {
		false
	}
	fn lanes(&self, _tier: Tier) -> Vec<Lane> {
		vec![
			Lane { kind: LaneKind::Coverage(&["src/io/slippi/de.rs", "src/io/ubjson/de.rs", "src/io/mod.rs", "src/io/peppi/de.rs"]), name: "reach", shards: vec![0], nshards: 1 },
			Lane { kind: LaneKind::AsanQuick, name: "asan-quick", shards: vec![0], nshards: 1 },
			Lane { kind: LaneKind::Valgrind, name: "truncate", shards: (0..16).collect(), nshards: 16 },
			Lane { kind: LaneKind::Miri, name: "truncate", shards: (0..9).collect(), nshards: 9 },
		]
	}
	fn n_cases(&self, ctx: &Ctx) -> usize {
		let (a, b, c) = self.layout(ctx.tier);
		a + b.len() + c
	}
	fn min_classes(&self, _tier: Tier) -> usize {
		8
	}
	fn run(&self, ctx: &Ctx, idx: usize) -> CaseOut {
		let mut out = CaseOut::default();
		let (n_slp, chunks, _n_fix) = self.layout(ctx.tier);
		if idx < n_slp {
			let seed = &self.seeds[idx / 4];
			let (skip, hash) = ((idx % 4) >= 2, idx % 2 == 1);
			ctx.mark(0);
			slp_cuts(&mut out, ctx, &seed.name, &seed.bytes, (0..seed.bytes.len()).map(|n| (n, skip, hash)).collect());
			if out.abandon_worker {
				return out;
			}
			out.class(format!("slp|skip={}|hash={}|all-offsets", skip, hash));
			out.class(format!("slp|v{}.{}", seed.model.version.0, seed.model.version.1));
			// positive control: the full file must be accepted
			if ctx.only_sub.is_none() {
				if let Err(f) = common::slp_read(&seed.bytes, skip, hash) {
					if !(skip && seed.model.ends.is_empty()) {
						out.inconclusive.push(format!("full file [{}] rejected (skip={}): {}", seed.name, skip, f.text()));
					}
				}
			}
			out.sample = Some(json!({"case": idx, "file": seed.name, "format": "slp", "skip": skip, "hash": hash, "offsets": seed.bytes.len(), "observed": format!("{} of {} prefixes rejected", out.counters.get("slp_prefix_rejected").copied().unwrap_or(0), seed.bytes.len())}));
			return out;
		}
		let idx2 = idx - n_slp;
		if idx2 < chunks.len() {
			let (ai, chunk) = chunks[idx2];
			let a = &self.slpp[ai];
			let seed = &self.seeds[a.seed];
			let lo = chunk * CHUNK;
			let hi = ((chunk + 1) * CHUNK).min(a.bytes.len());
			let cur = Arc::new(AtomicUsize::new(lo * 2));
			let (bytes, full, hash, quirk, cur2) = (a.bytes.clone(), seed.bytes.clone(), a.hash.clone(), a.quirk, cur.clone());
			let only = ctx.only_sub;
			// all cuts of the chunk run on one supervised thread; the cut counter
			// is the progress measure
			let w = watched(
				move || {
					let mut res = vec![];
					for n in lo..hi {
						for skip in [false, true] {
							let sub = (n * 2 + skip as usize) as u64;
							if only.map_or(false, |s| s != sub) {
								continue;
							}
							cur2.store(sub as usize, Relaxed);
							res.push((n, skip, slpp_cut(&full, &hash, quirk, &bytes[..n], skip)));
							// content-compared intact read right after a rejected prefix, now and then
							if !skip && n % 509 == 508 && only.is_none() {
								res.push((bytes.len(), false, slpp_cut(&full, &hash, quirk, &bytes[..], false)));
							}
						}
					}
					// history control: after all those rejected reads, the intact archive must still
					// read as the full game on this very thread (no state may survive a failed read)
					if only.is_none() {
						res.push((bytes.len(), false, slpp_cut(&full, &hash, quirk, &bytes[..], false)));
					}
					cur2.store(usize::MAX, Relaxed);
					res
				},
				{
					let c = cur.clone();
					move || c.load(Relaxed)
				},
				Duration::from_secs(4),
				Duration::from_secs(900),
			);
			// mark the whole chunk in the write-ahead record (a death is attributed to the chunk)
			ctx.mark(lo as u64);
			let name = format!("{} -> .slpp comp={}", seed.name, a.comp.name());
			let results = match w {
				Watched::Done(r) => r,
				Watched::Sleeping(e) | Watched::Spinning(e) => {
					let sub = cur.load(Relaxed);
					out.evals += 1;
					out.violate_sub(sub as u64, format!("slpp-hang;comp={}", a.comp.name()), format!("[{}] cut at {} of {} (skip={}): read does not return: {}", name, sub / 2, a.bytes.len(), sub % 2 == 1, e), Some(&a.bytes[..sub / 2]));
					out.abandon_worker = true;
					return out;
				}
				Watched::Timeout(e) => {
					out.inconclusive.push(format!("[{}] near cut {}: {}", name, cur.load(Relaxed) / 2, e));
					out.abandon_worker = true;
					return out;
				}
			};
			let region = |n: usize| -> &'static str {
				if n < 512 {
					"first-header"
				} else if n + 1024 >= a.bytes.len() {
					"trailing-padding"
				} else {
					"body"
				}
			};
			for (n, skip, o) in results {
				out.evals += 1;
				let sub = (n * 2 + skip as usize) as u64;
				if n == a.bytes.len() {
					// the positive control
					match o {
						SlppOutcome::Full => out.count("intact_archive_reads_after_rejected_reads", 1),
						other => out.violate(format!("slpp-intact-read-fails-after-truncated-reads;comp={}", a.comp.name()), format!("[{}] after {} reads of truncated prefixes on the same thread, reading the intact archive gives {:?}", name, (hi - lo) * 2, other), Some(&a.bytes)),
					}
					continue;
				}
				let oc = match &o {
					SlppOutcome::Rejected(_) => "rejected",
					SlppOutcome::Full => "full-game",
					SlppOutcome::Partial(_) => "PARTIAL",
					SlppOutcome::Panic(..) => "PANIC",
				};
				out.count(&format!("slpp_{}", oc), 1);
				out.class(format!("slpp|{}|skip={}|{}|{}", a.comp.name(), skip, oc, region(n)));
				match o {
					SlppOutcome::Rejected(e) => out.observe("slpp_error_messages", norm_msg(&e)),
					SlppOutcome::Full => {}
					SlppOutcome::Partial(d) => out.violate_sub(sub, format!("slpp-partial-game;comp={};skip={}", a.comp.name(), skip), format!("[{}] cut at {} of {} (skip={}): {}", name, n, a.bytes.len(), skip, d), Some(&a.bytes[..n])),
					SlppOutcome::Panic(loc, msg) => out.violate_sub(sub, format!("panic;{};{}", norm_loc(&loc), norm_msg(&msg)), format!("[{}] cut at {} of {} (skip={}): panic at {}: {}", name, n, a.bytes.len(), skip, loc, msg), Some(&a.bytes[..n])),
				}
			}
			if chunk == 0 {
				out.sample = Some(json!({"case": idx, "file": name, "format": "slpp", "archive_bytes": a.bytes.len(), "offsets_in_this_chunk": hi - lo, "observed": out.counters}));
			}
			return out;
		}
		// fixtures: boundary-focused cuts
		let j = idx - n_slp - chunks.len();
		let (fname, fbytes) = &self.fixtures[(j / 2 + ctx.seed as usize) % self.fixtures.len()];
		let mut rng = Rng::derive(ctx.seed, j as u64);
		if j % 2 == 0 {
			let Ok(m) = crate::model::parse(fbytes) else { return out };
			let mut offs: Vec<usize> = (0..(m.events[0].1 + m.events[0].2 + 4).min(fbytes.len())).step_by(7).collect();
			let ne = m.events.len();
			for (k, (_, at, len)) in m.events.iter().enumerate() {
				if k < 40 || k + 40 >= ne {
					for d in [-2i64, -1, 0, 1, 2] {
						let o = (*at as i64 + d).max(0) as usize;
						offs.push(o.min(fbytes.len() - 1));
						offs.push(((at + len) as i64 + d).max(0) as usize % fbytes.len());
					}
				}
			}
			for o in (m.consumed.saturating_sub(300))..m.consumed.min(fbytes.len()) {
				offs.push(o);
			}
			for _ in 0..40 {
				offs.push(rng.below(fbytes.len()));
			}
			offs.sort();
			offs.dedup();
			offs.retain(|o| *o < m.consumed);
			ctx.mark(0);
			slp_cuts(&mut out, ctx, fname, fbytes, offs.iter().enumerate().map(|(k, n)| (*n, k % 2 == 1, k % 4 >= 2)).collect());
			out.class("slp|fixture|boundary-offsets".to_string());
			out.sample = Some(json!({"case": idx, "file": fname, "format": "slp", "offsets": offs.len()}));
		} else {
			let comp = Comp::ALL[j / 2 % 3];
			let Ok(g) = common::slp_read(fbytes, false, true) else { return out };
			let (hash, quirk) = (g.hash.clone(), g.quirks.map(|q| q.double_game_end));
			let Ok(arch) = common::slpp_write(g, comp) else { return out };
			// reference = what the intact archive serialises to (for a fixture that is not canonical,
			// e.g. one with unknown events, this differs from the fixture's own bytes)
			let Some(reference) = common::slpp_read(&arch, false).ok().and_then(|g| common::slp_write(&g).ok()) else {
				out.inconclusive.push(format!("fixture {}: intact archive does not read/serialise", fname));
				return out;
			};
			let mut offs: Vec<usize> = vec![];
			let mut b = 0;
			while b < arch.len() {
				for d in [-1i64, 0, 1] {
					let o = b as i64 + d;
					if o >= 0 && (o as usize) < arch.len() {
						offs.push(o as usize);
					}
				}
				b += 512 * if arch.len() > 200_000 { 37 } else { 1 };
			}
			for o in arch.len().saturating_sub(1600)..arch.len() {
				if o % 3 == 0 {
					offs.push(o);
				}
			}
			for _ in 0..30 {
				offs.push(rng.below(arch.len()));
			}
			offs.sort();
			offs.dedup();
			let offs: Vec<usize> = offs.into_iter().take(ctx.tier.pick(60, 400)).collect();
			let (a2, f2, h2, o2) = (Arc::new(arch), reference, hash.clone(), offs.clone());
			let cur = Arc::new(AtomicUsize::new(0));
			let cur2 = cur.clone();
			let a3 = a2.clone();
			let w = watched(
				move || {
					let mut res = vec![];
					for n in o2 {
						cur2.store(n, Relaxed);
						res.push((n, slpp_cut(&f2, &h2, quirk, &a3[..n], false)));
					}
					res
				},
				{
					let c = cur.clone();
					move || c.load(Relaxed)
				},
				Duration::from_secs(20),
				Duration::from_secs(900),
			);
			match w {
				Watched::Done(res) => {
					for (n, o) in res {
						out.evals += 1;
						match o {
							SlppOutcome::Rejected(e) => {
								out.count("slpp_rejected", 1);
								out.observe("slpp_error_messages", norm_msg(&e));
							}
							SlppOutcome::Full => out.count("slpp_full-game", 1),
							SlppOutcome::Partial(d) => out.violate(format!("slpp-partial-game;comp={};skip=false", comp.name()), format!("[fixture {} comp={}] cut at {} of {}: {}", fname, comp.name(), n, a2.len(), d), None),
							SlppOutcome::Panic(loc, msg) => out.violate(format!("panic;{};{}", norm_loc(&loc), norm_msg(&msg)), format!("[fixture {} comp={}] cut at {} of {}: panic at {}: {}", fname, comp.name(), n, a2.len(), loc, msg), None),
						}
					}
				}
				Watched::Sleeping(e) | Watched::Spinning(e) => {
					let n = cur.load(Relaxed);
					out.evals += 1;
					out.violate(format!("slpp-hang;comp={}", comp.name()), format!("[fixture {} comp={}] cut at {} of {}: {}", fname, comp.name(), n, a2.len(), e), Some(&a2[..n]));
					out.abandon_worker = true;
				}
				Watched::Timeout(e) => {
					out.inconclusive.push(format!("fixture {}: {}", fname, e));
					out.abandon_worker = true;
				}
			}
			out.class(format!("slpp|fixture|{}|boundary-offsets", comp.name()));
			out.sample = Some(json!({"case": idx, "file": fname, "format": "slpp", "comp": comp.name(), "offsets": offs.len()}));
		}
		out
	}
}
