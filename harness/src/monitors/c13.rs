//! C13: the per-frame row view equals the columnar data at the same index.

use super::c01::case_input;
use crate::common::{self, Space, Step};
use crate::driver::{guard, CaseOut, Ctx, Monitor, Tier};
use crate::iofault::Src;
use crate::view::{self, Row};
use peppi::game::Game as GameTrait;
use serde_json::json;

pub struct C13 {
	quick: Space,
	thorough: Space,
	fixtures: Vec<(String, Vec<u8>)>,
}

impl C13 {
	pub fn new() -> Self {
		let mut q = Space::new(false);
		q.n_random = 5000;
		let mut t = Space::new(true);
		t.n_random = 150000;
		C13 { quick: q, thorough: t, fixtures: common::fixtures() }
	}
}

fn row_diff(a: &Row, b: &Row) -> Option<String> {
	for (k, v) in a {
		match b.get(k) {
			None => return Some(format!("{} present in row view, absent in columns", k)),
			Some(w) if w != v => return Some(format!("{}: row view {:#x} columns {:#x}", k, v, w)),
			_ => {}
		}
	}
	for k in b.keys() {
		if !a.contains_key(k) {
			return Some(format!("{} present in columns, absent in row view", k));
		}
	}
	None
}

fn generic(path: &str) -> String {
	let p = path.split(':').next().unwrap_or(path).split_whitespace().next().unwrap_or("");
	p.split('.').filter(|c| !(c.len() == 2 && c.starts_with('P'))).map(|c| if c.starts_with("item[") { "item[k]" } else { c }).collect::<Vec<_>>().join(".")
}

impl Monitor for C13 {
	fn id(&self) -> &'static str {
		"C13"
	}
	fn rule(&self) -> String {
		"same workload space as C01; for every game and EVERY frame index i: flatten Frame::transpose_one(i) and Game::frame(i) and compare, field by field (raw bits), with the row implied by the column arrays at i (hand-written accessor table); version-absent fields must be absent in both; items must be exactly the slice [offset[i], offset[i+1]). The same comparison runs on the incremental API's in-progress state for every completed row after every event (quick: sampled events). Unique random field values make same-typed mapping slips visible. distinct = workload classes; counters give rows and fields compared.".into()
	}
	fn n_cases(&self, ctx: &Ctx) -> usize {
		self.fixtures.len() + ctx.tier.pick(&self.quick, &self.thorough).len()
	}
	fn min_classes(&self, tier: Tier) -> usize {
		tier.pick(60, 100)
	}
	fn run(&self, ctx: &Ctx, idx: usize) -> CaseOut {
		let mut out = CaseOut::default();
		let Some((desc, bytes, truth)) = case_input(ctx.tier.pick(&self.quick, &self.thorough), &self.fixtures, ctx.seed, idx, &mut out) else { return out };
		out.evals = 1;
		let game = match common::slp_read(&bytes, false, false) {
			Ok(g) => g,
			Err(f) => {
				out.violate(format!("read-failed;{}", f.sig()), format!("{}: {}", desc, f.text()), Some(&bytes));
				return out;
			}
		};
		let version = game.start.slippi.version;
		let cols = view::cols_imm(&game.frames);
		// fixtures are large: sample rows there, all rows for generated games
		let n = cols.rows;
		let stride = if n > 400 { n / 200 } else { 1 };
		let mut fields = 0u64;
		let mut rows = 0u64;
		let mut i = 0;
		while i < n {
			let from_cols = view::row_from_cols(&cols, i);
			for (what, r) in [("transpose_one", guard(|| game.frames.transpose_one(i, version))), ("Game::frame", guard(|| game.frame(i)))] {
				match r {
					Ok(fr) => {
						let flat = view::row_flat(&fr);
						fields += flat.len() as u64;
						if let Some(d) = row_diff(&flat, &from_cols) {
							out.violate(format!("row-vs-columns;{};{}", what, generic(&d)), format!("{}: row {} via {}: {}", desc, i, what, d), Some(&bytes));
						}
					}
					Err(p) => out.violate(format!("row-view-panic;{};{}", what, crate::driver::norm_msg(&p.msg)), format!("{}: row {} via {} panicked at {}: {}", desc, i, what, p.loc, p.msg), Some(&bytes)),
				}
			}
			rows += 1;
			i += stride;
			if out.violations.len() >= 4 {
				break;
			}
		}
		out.count("rows_compared", rows);
		out.count("row_fields_compared", fields);

		// in-progress representation: completed rows after events
		if n <= 400 {
			let v = truth.v();
			let closes_on_end = crate::spec::gte(v, (3, 0));
			let mut src = Src::of(&bytes);
			let mut inprog_rows = 0u64;
			let mut step_no = 0usize;
			let every = ctx.tier.pick(3, 1);
			let mut viol: Vec<(String, String)> = vec![];
			let r = common::incremental(&mut src, |st, step, _| {
				step_no += 1;
				if !matches!(step, Step::Event(_) | Step::Close) || (step_no % every != 0 && step != Step::Close) || viol.len() >= 2 {
					return;
				}
				let len = st.len();
				// completed rows: with Frame End events every row for which the
				// end event has arrived; otherwise all but the open (last) row
				let completed = if closes_on_end { st.frames().end.as_ref().map_or(0, |e| e.len()) } else { len.saturating_sub(1) };
				let mc = view::cols_mut(st.frames());
				// check the most recently completed row (earlier ones were checked at earlier steps)
				let lo = completed.saturating_sub(2);
				for i in lo..completed {
					let from_cols = view::row_from_cols(&mc, i);
					match guard(|| st.frame(i)) {
						Ok(fr) => {
							inprog_rows += 1;
							if let Some(d) = row_diff(&view::row_flat(&fr), &from_cols) {
								viol.push((format!("inprogress-row-vs-columns;{}", generic(&d)), format!("row {} of {} (completed {}): {}", i, len, completed, d)));
							}
						}
						Err(p) => viol.push((format!("inprogress-row-view-panic;{}", crate::driver::norm_msg(&p.msg)), format!("ParseState::frame({}) with {} completed rows panicked at {}: {}", i, completed, p.loc, p.msg))),
					}
				}
			});
			if let Err(f) = r {
				out.violate(format!("incremental-failed;{}", f.sig()), format!("{}: {}", desc, f.text()), Some(&bytes));
			}
			for (s, d) in viol {
				out.violate(s, format!("{}: {}", desc, d), Some(&bytes));
			}
			out.count("inprogress_rows_compared", inprog_rows);
		}
		if idx % 60 == 0 {
			out.sample = Some(json!({"case": idx, "input": desc, "rows_compared": rows, "fields_compared": fields, "observed": if out.violations.is_empty() { "row view == columns == model" } else { "MISMATCH" }}));
		}
		out
	}
}
