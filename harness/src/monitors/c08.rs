//! C08: unknown events and longer payloads from newer versions never disturb known data.

use crate::common::{self, Step};
use crate::driver::{CaseOut, Ctx, Monitor, Tier};
use crate::gen::{self, Extra};
use crate::iofault::Src;
use crate::mutate;
use crate::rng::Rng;
use crate::{model, view};
use serde_json::json;

pub struct C08 {
	fixtures: Vec<(String, Vec<u8>)>,
}

impl C08 {
	pub fn new() -> Self {
		C08 { fixtures: common::fixtures() }
	}
}

const KNOWN: [u8; 10] = [0x10, 0x35, 0x36, 0x37, 0x38, 0x39, 0x3A, 0x3B, 0x3C, 0x3D];

fn unknown_codes() -> Vec<u8> {
	(0..=255u8).filter(|c| !KNOWN.contains(c)).collect()
}

struct Snapshot {
	cols: view::Cols,
	start_json: String,
	start_bytes: Vec<u8>,
	end: Option<peppi::game::End>,
	metadata: Option<serde_json::Map<String, serde_json::Value>>,
	gecko: Option<(Vec<u8>, u32)>,
	quirk: Option<bool>,
}

fn snapshot(g: &peppi::game::immutable::Game) -> Snapshot {
	Snapshot {
		cols: view::cols_imm(&g.frames),
		start_json: serde_json::to_string(&g.start).unwrap_or_default(),
		start_bytes: g.start.bytes.0.clone(),
		end: g.end.clone(),
		metadata: g.metadata.clone(),
		gecko: g.gecko_codes.as_ref().map(|x| (x.bytes.clone(), x.actual_size)),
		quirk: g.quirks.map(|q| q.double_game_end),
	}
}

fn snap_diff(a: &Snapshot, b: &Snapshot) -> Option<String> {
	if a.start_bytes != b.start_bytes || a.start_json != b.start_json {
		return Some("start".into());
	}
	if a.end != b.end {
		return Some("end".into());
	}
	if a.metadata != b.metadata {
		return Some("metadata".into());
	}
	if a.gecko != b.gecko {
		return Some("gecko codes".into());
	}
	if a.quirk != b.quirk {
		return Some("quirks".into());
	}
	if a.cols != b.cols {
		if a.cols.rows != b.cols.rows {
			return Some(format!("row count {} vs {}", a.cols.rows, b.cols.rows));
		}
		for (p, v) in &a.cols.leaves {
			if b.cols.leaves.get(p) != Some(v) {
				return Some(format!("column {}", p));
			}
		}
		return Some("validity / item offsets".into());
	}
	None
}

impl Monitor for C08 {
	fn id(&self) -> &'static str {
		"C08"
	}
	fn rule(&self) -> String {
		"(a) unknown events: small well-formed replays of every regime (and, in thorough, heads of fixtures); for EVERY event boundary after Game Start up to the one before the (first) Game End (including inside message-splitter runs and between a frame's events) 1-3 events with codes drawn from all 246 codes the library does not know and sizes from {1, 2, 7, 516, 4096, 65535} are declared in the payload table and inserted (multiplicity 1-3); additionally a run that inserts an unknown event at every boundary at once. The modified file is read through the fragmenting source (whole / 1 / 7 / 64 / random<=300-byte reads). Oracle (differential on the real reader + model): the game read (start, end, metadata, gecko, quirks, every column, validity and item offset) is identical to the game read from the original, via slippi::read (default options and, on a subset, with the debug-dump option) and via the incremental API. (c) every one of the 246 unknown codes once per run with payload sizes 1/2/3/4/8 on replays whose Game Start carries stage ids 2/3/8/31/32. (b) newer versions: versions {3.17, 3.255, 4.0, 10.0, 255.255} with 1..8 or 100 extra trailing bytes appended independently to each known event kind (and to Game Start / Game End): must parse (also with skip_frames and compute_hash), every known frame field must equal the spec-offset value of the (longer) payload, and start/end must equal those of the same file without the extra bytes. One evaluation = one modified file read. distinct = (regime, boundary kind, size class) and (version, kind with extras) classes.".into()
	}
	fn n_cases(&self, ctx: &Ctx) -> usize {
		// (a) seeds x rounds, (b) version cases
		ctx.tier.pick(14 * 6 + 400, 14 * 60 + 23 + 20000) + 246
	}
	fn min_classes(&self, _tier: Tier) -> usize {
		30
	}
	fn run(&self, ctx: &Ctx, idx: usize) -> CaseOut {
		let mut out = CaseOut::default();
		let mut rng = Rng::derive(ctx.seed, 0xC08 ^ (idx as u64) << 3);
		let seeds = super::c06::seeds();
		let na = ctx.tier.pick(14 * 6, 14 * 60 + 23);
		if idx < na {
			let (name, bytes, m) = if idx < 14 * ctx.tier.pick(6, 60) {
				let s = &seeds[idx % 12.min(seeds.len())];
				(s.name.clone(), s.bytes.clone(), s.model.clone())
			} else {
				// head of a fixture: keep the first ~60 events, re-assembled with the end kept
				let (fname, fb) = &self.fixtures[(idx - 14 * 60) % self.fixtures.len()];
				let Ok(fm) = model::parse(fb) else { return out };
				let mut p = mutate::split(fb, &fm);
				if p.events.len() > 80 {
					let end: Vec<(u8, Vec<u8>)> = p.events.iter().filter(|(c, _)| *c == 0x39).cloned().collect();
					// cut at a frame boundary
					let mut cut = 60;
					while cut < p.events.len() && !(p.events[cut].0 == 0x3A || (p.events[cut].0 == 0x37 && !p.table.iter().any(|(c, _)| *c == 0x3A) && p.events[cut - 1].0 == 0x38)) {
						cut += 1;
					}
					p.events.truncate(cut);
					p.events.extend(end);
				}
				let b = mutate::assemble(&p, true);
				let Ok(m2) = model::parse(&b) else { return out };
				(format!("head of fixture {}", fname), b, m2)
			};
			let regime = if crate::spec::gte(m.v(), (3, 0)) { "start+end" } else if crate::spec::gte(m.v(), (2, 2)) { "start-only" } else { "none" };
			let base = match common::slp_read(&bytes, false, false) {
				Ok(g) => snapshot(&g),
				Err(f) => {
					out.inconclusive.push(format!("{}: original does not read: {}", name, f.text()));
					return out;
				}
			};
			let parts = mutate::split(&bytes, &m);
			let codes = unknown_codes();
			let n_events = parts.events.len();
			// boundaries up to (and including) the one before the first Game End: what follows the
			// first Game End is not parsed as events (that irregularity belongs to C17)
			let first_end = parts.events.iter().position(|(c, _)| *c == 0x39).unwrap_or(n_events - 1);
			let mut positions: Vec<Option<usize>> = (1..=first_end.max(1)).filter(|j| *j < n_events).map(Some).collect();
			positions.push(None); // None = at every boundary at once
			for pos in positions {
				let mut p = parts.clone();
				let k = rng.range(1, 3);
				let mut chosen: Vec<(u8, usize)> = vec![];
				for _ in 0..k {
					let c = *rng.pick(&codes);
					if chosen.iter().any(|(cc, _)| *cc == c) || p.table.iter().any(|(cc, _)| *cc == c) {
						continue;
					}
					let sz = *rng.pick(&[1usize, 2, 7, 516, 4096, 65535]);
					chosen.push((c, sz));
					// table position: anywhere (the table is keyed by raw code)
					let at = rng.range(0, p.table.len());
					p.table.insert(at, (c, sz as u16));
				}
				if chosen.is_empty() {
					continue;
				}
				let mk = |rng: &mut Rng, c: u8, sz: usize| -> (u8, Vec<u8>) { (c, rng.bytes(sz)) };
				match pos {
					Some(j) => {
						let mult = rng.range(1, 3);
						for _ in 0..mult {
							for (c, sz) in &chosen {
								let e = mk(&mut rng, *c, *sz);
								p.events.insert(j, e);
							}
						}
						let prev = parts.events[j - 1].0;
						let next = parts.events[j].0;
						out.class(format!("unknown|{}|between {:#04x} and {:#04x}|size<={}", regime, prev, next, chosen.iter().map(|c| c.1).max().unwrap_or(0).next_power_of_two()));
					}
					None => {
						let (c, sz) = chosen[0];
						let sz = sz.min(516);
						if let Some(t) = p.table.iter_mut().find(|(cc, _)| *cc == c) {
							t.1 = sz as u16;
						}
						let mut evs = vec![p.events[0].clone()];
						for (j, e) in parts.events.iter().enumerate().skip(1) {
							if j <= first_end {
								evs.push(mk(&mut rng, c, sz));
							}
							evs.push(e.clone());
						}
						p.events = evs;
						out.class(format!("unknown|{}|every-boundary-at-once", regime));
					}
				}
				let modified = mutate::assemble(&p, true);
				out.evals += 1;
				let what = format!("{}: unknown events {:?} inserted {}", name, chosen, pos.map_or("at every boundary".to_string(), |j| format!("before event #{} ({:#04x})", j, parts.events[j].0)));
				// read through the fragmenting source: skipping an unknown payload must survive short reads
				let sched = match rng.below(5) {
					0 => crate::iofault::Policy::Whole,
					1 => crate::iofault::Policy::Fixed(1),
					2 => crate::iofault::Policy::Fixed(64),
					3 => crate::iofault::Policy::Random(300, rng.next()),
					_ => crate::iofault::Policy::Fixed(7),
				};
				let want_hash = format!("xxh3:{:016x}", xxhash_rust::xxh3::xxh3_64(&modified));
				match common::slp_read_src(Src::new(std::sync::Arc::new(modified.clone()), sched.clone()), false, true) {
					Ok(g) if g.hash.as_deref() != Some(&want_hash[..]) => out.violate("unknown-event-hash", format!("{} (schedule {:?}): hash {:?}, digest of the file is {}", what, sched, g.hash, want_hash), Some(&modified)),
					Ok(g) => match snap_diff(&base, &snapshot(&g)) {
						None => out.count("identical_games", 1),
						Some(d) => out.violate(format!("unknown-event-disturbs;{}", d.split_whitespace().next().unwrap_or("")), format!("{}: parsed game differs in {}", what, d), Some(&modified)),
					},
					Err(f) => out.violate(format!("unknown-event-rejected;{}", f.sig()), format!("{}: {}", what, f.text()), Some(&modified)),
				}
				// the debug-dump option must skip unknown events just the same
				if pos.is_none() || rng.chance(1, 12) {
					out.evals += 1;
					let dbg = crate::driver::verif_root().join("work").join("C08").join(format!("dbg-{}", std::process::id()));
					let _ = std::fs::remove_dir_all(&dbg);
					let opts = peppi::io::slippi::de::Opts { skip_frames: false, compute_hash: false, debug: Some(peppi::io::slippi::de::Debug { dir: dbg.clone() }) };
					let r = crate::driver::guard(|| peppi::io::slippi::read(std::io::Cursor::new(&modified[..]), Some(&opts)));
					let _ = std::fs::remove_dir_all(&dbg);
					match r {
						Ok(Ok(g)) => {
							if let Some(d) = snap_diff(&base, &snapshot(&g)) {
								out.violate("unknown-event-disturbs;debug-option", format!("{}: with the debug option the parsed game differs in {}", what, d), Some(&modified));
							}
						}
						Ok(Err(e)) => out.violate(format!("unknown-event-rejected;debug-option;{}", crate::driver::norm_msg(&e.to_string())), format!("{}: with the debug option the read fails: {}", what, e), Some(&modified)),
						Err(p) => out.violate("unknown-event-panic;debug-option", format!("{}: panic {}", what, p.msg), Some(&modified)),
					}
				}
				// incremental API on a subset
				if pos.is_none() || rng.chance(1, 6) {
					out.evals += 1;
					let mut src = Src::new(std::sync::Arc::new(modified.clone()), sched.clone());
					let stats = src.stats();
					let mut accounting: Option<String> = None;
					let mut skipped = 0u64;
					match common::incremental(&mut src, |st, step, _| {
						if let Step::Event(c) = step {
							if !KNOWN.contains(&c) {
								skipped += 1;
							}
							if st.bytes_read() + 15 != stats.bytes() && accounting.is_none() {
								accounting = Some(format!("after event {:#04x}: bytes_read()={} but {} bytes were delivered (-15)", c, st.bytes_read(), stats.bytes()));
							}
						}
					}) {
						Ok(st) => {
							use peppi::game::Game;
							let mc = view::cols_mut(st.frames());
							let n = if crate::spec::gte(m.v(), (3, 0)) { base.cols.rows } else { base.cols.rows.saturating_sub(1) };
							let (a, b) = (super::c04::truncate_cols(&mc, n), super::c04::truncate_cols(&base.cols, n));
							if a.leaves != b.leaves || st.end() != &base.end || st.metadata() != &base.metadata {
								out.violate("unknown-event-disturbs;incremental", format!("{}: incremental result differs", what), Some(&modified));
							}
							if let Some(a) = &accounting {
								out.violate("unknown-event-byte-accounting", format!("{} (schedule {:?}): {}", what, sched, a), Some(&modified));
							}
							out.count("unknown_events_skipped_incrementally", skipped);
						}
						Err(f) => out.violate(format!("unknown-event-rejected-incremental;{}", f.sig()), format!("{}: {}", what, f.text()), Some(&modified)),
					}
				}
			}
			out.sample = Some(json!({"case": idx, "file": name, "boundaries": n_events - 1, "evaluations": out.evals}));
			return out;
		}
		// (c) every unknown code once per run, with small and odd payload sizes, on replays whose
		// Game Start names different (small, realistic) stage ids
		let nb = ctx.tier.pick(400, 20000);
		if idx >= na + nb {
			let code = unknown_codes()[(idx - na - nb) % 246];
			for (k, stage) in [2u16, 3, 8, 31, 32].iter().enumerate() {
				let seed = &seeds[(k + code as usize) % seeds.len()];
				let mut p = mutate::split(&seed.bytes, &seed.model);
				if p.table.iter().any(|(c, _)| *c == code) || p.events.len() < 2 {
					continue;
				}
				// stage id in the Game Start block
				p.events[0].1[crate::spec::start::STAGE..crate::spec::start::STAGE + 2].copy_from_slice(&stage.to_be_bytes());
				let original = mutate::assemble(&p, true);
				let base = match common::slp_read(&original, false, false) {
					Ok(g) => snapshot(&g),
					Err(_) => continue,
				};
				for sz in [1usize, 2, 3, 4, 8] {
					let mut q = p.clone();
					q.table.push((code, sz as u16));
					let first_end = q.events.iter().position(|(c, _)| *c == 0x39).unwrap_or(q.events.len());
					let j = rng.range(1, first_end.max(1));
					q.events.insert(j, (code, rng.bytes(sz)));
					let modified = mutate::assemble(&q, true);
					out.evals += 1;
					match common::slp_read(&modified, false, false) {
						Ok(g) => {
							if let Some(d) = snap_diff(&base, &snapshot(&g)) {
								out.violate(format!("unknown-event-disturbs;{}", d.split_whitespace().next().unwrap_or("")), format!("{} (stage {}): unknown event {:#04x} with a {}-byte payload before event #{} changes {}", seed.name, stage, code, sz, j, d), Some(&modified));
							}
						}
						Err(f) => out.violate(format!("unknown-event-rejected;{}", f.sig()), format!("{} (stage {}): unknown event {:#04x} with a {}-byte payload before event #{}: {}", seed.name, stage, code, sz, j, f.text()), Some(&modified)),
					}
				}
			}
			out.class(format!("every-unknown-code|{:#04x}", code & 0xf0));
			return out;
		}
		// (b) newer versions with longer payloads
		let ver = *rng.pick(&[(3u8, 17u8, 0u8), (3, 255, 9), (4, 0, 0), (10, 0, 1), (255, 255, 255), (3, 16, 1)]);
		let cfgs = gen::all_port_configs();
		let ports = cfgs[rng.range(1, cfgs.len() - 1)].clone();
		let nchars: usize = ports.iter().map(|(_, i)| 1 + *i as usize).sum();
		let mut s = gen::base_spec(ver, ports, 0);
		let nf = rng.range(1, 6);
		s.frames = gen::gen_frames(&mut rng, (ver.0, ver.1), nchars, nf, true, 2, 3);
		s.rich_start = true;
		s.metadata = Some(gen::gen_meta(&mut rng, 1, 2));
		s.ends = 1;
		if rng.chance(1, 2) {
			s.gecko_blocks = 1;
			s.gecko_tail = 3;
		}
		let ex = |rng: &mut Rng| -> usize {
			match rng.below(4) {
				0 => 0,
				1 => rng.range(1, 8),
				2 => 100,
				_ => 1,
			}
		};
		s.extra = Extra { start: ex(&mut rng), pre: ex(&mut rng), post: ex(&mut rng), end: ex(&mut rng), fstart: ex(&mut rng), item: ex(&mut rng), fend: ex(&mut rng) };
		let desc = format!("{} extra={:?}", s.describe(), s.extra);
		let built = gen::build(&s, &mut rng);
		out.evals = 1;
		for (k, n) in [("start", s.extra.start), ("pre", s.extra.pre), ("post", s.extra.post), ("end", s.extra.end), ("fstart", s.extra.fstart), ("item", s.extra.item), ("fend", s.extra.fend)] {
			if n > 0 {
				out.class(format!("newer|v{}.{}|extra-on-{}|{}", ver.0, ver.1, k, if n >= 100 { "100" } else { "1-8" }));
			}
		}
		let g = match common::slp_read(&built.bytes, false, false) {
			Ok(g) => g,
			Err(f) => {
				out.violate(format!("newer-version-rejected;{}", f.sig()), format!("{}: {}", desc, f.text()), Some(&built.bytes));
				return out;
			}
		};
		let chars = view::occupied_chars(&built.truth.start);
		let exp = view::expected_cols(&built.truth, &chars);
		let d = view::diff_expected(&exp, &view::cols_imm(&g.frames), "columns", 3);
		for msg in d.fields.iter().chain(d.structure.iter()).take(3) {
			out.violate(format!("newer-version-field;{}", super::c03::sig_of(msg)), format!("{}: {}", desc, msg), Some(&built.bytes));
		}
		// the other reader options must cope with the longer payloads as well
		for (skip, hash) in [(true, false), (true, true), (false, true)] {
			out.evals += 1;
			match common::slp_read(&built.bytes, skip, hash) {
				Ok(g3) => {
					if !common::same_start(&g3.start, &g.start) || g3.end != g.end || g3.metadata != g.metadata {
						out.violate(format!("newer-version-options-differ;skip={};hash={}", skip, hash), format!("{}: start/end/metadata differ when read with skip_frames={} compute_hash={}", desc, skip, hash), Some(&built.bytes));
					}
				}
				Err(f) => out.violate(format!("newer-version-rejected;skip={};hash={};{}", skip, hash, f.sig()), format!("{}: read with skip_frames={} compute_hash={} failed: {}", desc, skip, hash, f.text()), Some(&built.bytes)),
			}
		}
		// start / end as if the extra bytes were absent
		let mut s2 = s.clone();
		s2.extra = Extra::default();
		let base_len = crate::spec::start_size((ver.0, ver.1));
		s2.start_override = Some(built.truth.start[..base_len].to_vec());
		s2.end_override = Some(built.truth.ends[0][..crate::spec::end_size((ver.0, ver.1))].to_vec());
		let b2 = gen::build(&s2, &mut rng);
		match common::slp_read(&b2.bytes, false, false) {
			Ok(g2) => {
				let (j1, j2) = (serde_json::to_string(&g.start).unwrap_or_default(), serde_json::to_string(&g2.start).unwrap_or_default());
				if j1 != j2 {
					out.violate("newer-version-start-differs", format!("{}: start fields differ from the same block without the extra bytes", desc), Some(&built.bytes));
				}
				let (e1, e2) = (serde_json::to_string(&g.end).unwrap_or_default(), serde_json::to_string(&g2.end).unwrap_or_default());
				if e1 != e2 {
					out.violate("newer-version-end-differs", format!("{}: end fields differ: {} vs {}", desc, e1, e2), Some(&built.bytes));
				}
				if g.metadata != g2.metadata {
					out.violate("newer-version-metadata-differs", format!("{}: metadata differs", desc), Some(&built.bytes));
				}
			}
			Err(f) => out.inconclusive.push(format!("{}: reference without extras does not read: {}", desc, f.text())),
		}
		if idx % 30 == 0 {
			out.sample = Some(json!({"case": idx, "input": desc, "observed": if out.violations.is_empty() { "parsed; all known fields equal spec-offset values; start/end as without extras" } else { "FAILED" }}));
		}
		out
	}
}
