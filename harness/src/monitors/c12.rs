//! C12: incremental parsing equals one-shot parsing for any read fragmentation.

use super::c01::case_input;
use super::c04::{truncate_cols, truncate_expected};
use crate::common::{self, Space, Step};
use crate::driver::{CaseOut, Ctx, Monitor, Tier};
use crate::iofault::{Policy, Src};
use crate::view;
use peppi::game::Game as GameTrait;
use serde_json::json;
use std::sync::Arc;

pub struct C12 {
	quick: Space,
	thorough: Space,
	fixtures: Vec<(String, Vec<u8>)>,
}

impl C12 {
	pub fn new() -> Self {
		let mut q = Space::new(false);
		q.n_random = 400;
		q.size = 12;
		let mut t = Space::new(true);
		t.n_random = 5000;
		t.size = 40;
		C12 { quick: q, thorough: t, fixtures: common::fixtures() }
	}
}

impl Monitor for C12 {
	fn id(&self) -> &'static str {
		"C12"
	}
	fn rule(&self) -> String {
		"C01's replay space (small/medium histories; every 5th generated replay also carries unknown events with 2..600-byte payloads); the incremental API (parse_header, parse_start, parse_event per call, parse_metadata) is driven (with the options argument rotating over None / default / skip_frames / compute_hash - none may matter on this path) over the instrumented source under schedules {whole, 1-byte, fixed 2/3/7/64 and one drawn from {4..17, 255..257, 512, 8192}, random 1..4, random 1..200, whole reads with every k-th call answered by ErrorKind::Interrupted, two-piece splits: ALL for every 6th file <= 2.5 KB in quick and every 2nd file <= 8 KB in thorough, else 32 random}. Online monitor after EVERY call: bytes_read() == bytes delivered by the counting source - 15 (header); row count never decreases; the completed rows (rows closed by Frame End >= 3.0; all but the open row otherwise) equal, column by column, the same prefix of the one-shot game (checked at every event for the newest completed row and in full at end of stream). Final: start/end/metadata/gecko via the Game trait equal the one-shot result. For a doubled Game End every other schedule keeps calling parse_event until the declared raw length is used up (the second Game End is an event like any other). Truncated streams: each file is also cut at up to 13 points inside the raw element (after the code byte / in the middle / one byte short of every unknown event's payload, plus 4 random points) and driven the same way: every call that returns Ok must account for exactly the bytes delivered and the run must end in an error. Interleaved parsing: every third file is also parsed event by event alternately with a generated sibling (same version and ports, or another version; own frames, gecko list and metadata) on the same thread, one call each in turn; both final states must equal their own one-shot games. One evaluation = one (file, schedule) run. distinct = workload classes x schedule; counters give calls monitored.".into()
	}
	fn assumptions(&self) -> Vec<String> {
		vec!["the one-shot reader is the reference for the final game (itself checked against the independent model by C03/C04)".into(), "before v3.0 nothing in the stream closes the last frame, so the last row is only compared when it is materially complete".into()]
	}
	fn n_cases(&self, ctx: &Ctx) -> usize {
		self.fixtures.len() + ctx.tier.pick(&self.quick, &self.thorough).len()
	}
	fn min_classes(&self, tier: Tier) -> usize {
		tier.pick(100, 200)
	}
	fn run(&self, ctx: &Ctx, idx: usize) -> CaseOut {
		let mut out = CaseOut::default();
		let Some((desc, bytes, truth)) = case_input(ctx.tier.pick(&self.quick, &self.thorough), &self.fixtures, ctx.seed, idx, &mut out) else { return out };
		let base: Vec<String> = out.classes.iter().take(2).cloned().collect();
		// a fifth of the generated replays additionally carry unknown events (declared in the payload
		// table, payload 2..600 bytes) at random boundaries: accepted input for which the incremental
		// API must equal the one-shot reader just the same
		let mut bytes = bytes;
		let mut truth = truth;
		if idx >= self.fixtures.len() && idx % 5 == 0 {
			let mut r2 = crate::rng::Rng::derive(ctx.seed, 0xC12A ^ idx as u64);
			let mut p = crate::mutate::split(&bytes, &truth);
			let code = *r2.pick(&[0x11u8, 0x40, 0x7f, 0xfe]);
			if !p.table.iter().any(|(c, _)| *c == code) {
				let sz = *r2.pick(&[2usize, 3, 64, 257, 300, 600]);
				p.table.push((code, sz as u16));
				let first_end = p.events.iter().position(|(c, _)| *c == 0x39).unwrap_or(p.events.len());
				for _ in 0..r2.range(1, 4) {
					let j = r2.range(1, first_end.max(1));
					let e = (code, r2.bytes(sz));
					p.events.insert(j, e);
				}
				let b2 = crate::mutate::assemble(&p, true);
				if let Ok(m2) = crate::model::parse(&b2) {
					bytes = b2;
					truth = m2;
					out.class("with-unknown-events".to_string());
				}
			}
		}
		let one = match common::slp_read(&bytes, false, false) {
			Ok(g) => g,
			Err(f) => {
				out.violate(format!("oneshot-failed;{}", f.sig()), format!("{}: {}", desc, f.text()), Some(&bytes));
				return out;
			}
		};
		let one_cols = view::cols_imm(&one.frames);
		let closes_on_end = crate::spec::gte(truth.v(), (3, 0));
		let mut rng = crate::rng::Rng::derive(ctx.seed, 0xC12 ^ idx as u64);
		let big = bytes.len() > 100_000;
		let mut policies = if big { vec![Policy::Whole, Policy::Random(200, rng.next())] } else { vec![Policy::Whole, Policy::Fixed(1), Policy::Fixed(2), Policy::Fixed(3), Policy::Fixed(7), Policy::Fixed(64), Policy::Random(4, rng.next()), Policy::Random(200, rng.next()), Policy::Fixed(*rng.pick(&[4usize, 5, 6, 8, 9, 10, 11, 12, 13, 14, 15, 16, 17, 255, 256, 257, 512, 8192])), Policy::Interrupt(*rng.pick(&[2usize, 3, 5, 40]))] };
		let all_splits = bytes.len() <= ctx.tier.pick(2500, 8_000) && idx % ctx.tier.pick(6, 2) == 0;
		if all_splits {
			for p in 1..bytes.len() {
				policies.push(Policy::Split(p));
			}
		} else if !big {
			for _ in 0..32 {
				policies.push(Policy::Split(rng.range(1, bytes.len() - 1)));
			}
		}
		let data = Arc::new(bytes.clone());
		let mut calls_monitored = 0u64;
		for pol in &policies {
			out.evals += 1;
			for c in &base {
				out.class(format!("{} sched={}", c, pol.name()));
			}
			let mut src = Src::new(data.clone(), pol.clone());
			let stats = src.stats();
			let mut problems: Vec<(String, String)> = vec![];
			let mut last_rows = 0usize;
			// full per-step column comparison is costly: do it for single-piece
			// schedules, sample it for the (many) two-piece splits
			let deep = !matches!(pol, Policy::Split(_)) || rng.chance(1, 16);
			// the options argument of the incremental calls is varied too: on the incremental path
			// none of the options may change what is parsed or how bytes are counted
			let opt_variants = [None, Some(peppi::io::slippi::de::Opts::default()), Some(peppi::io::slippi::de::Opts { skip_frames: true, compute_hash: false, debug: None }), Some(peppi::io::slippi::de::Opts { skip_frames: false, compute_hash: true, debug: None })];
			let opts = opt_variants[(idx + out.evals as usize) % 4].clone();
			// a doubled Game End is two events: every other schedule keeps calling parse_event until the
			// declared raw length is used up instead of stopping at the first Game End
			let through = truth.ends.len() == 2 && truth.junk_after_end == 0 && out.evals % 2 == 0;
			if through {
				out.class("driven-through-second-game-end".to_string());
			}
			let r = common::incremental_full(&mut src, opts.as_ref(), through, |st, step, _raw_len| {
				calls_monitored += 1;
				if problems.len() >= 2 {
					return;
				}
				if matches!(step, Step::Start | Step::Event(_)) {
					let delivered = stats.bytes();
					if st.bytes_read() + 15 != delivered {
						problems.push(("bytes_read".into(), format!("after {:?}: bytes_read()={} but the source delivered {} (-15 header = {})", step, st.bytes_read(), delivered, delivered as i64 - 15)));
					}
				}
				let rows = st.len();
				if rows < last_rows {
					problems.push(("rows-decreased".into(), format!("after {:?}: rows {} -> {}", step, last_rows, rows)));
				}
				last_rows = rows;
				if deep && !big {
					if let Step::Event(_) = step {
						let completed = if closes_on_end { st.frames().end.as_ref().map_or(0, |e| e.len()) } else { rows.saturating_sub(1) };
						if completed > 0 {
							// newest completed row, via the row view, against the one-shot row
							let i = completed - 1;
							if i < one_cols.rows {
								let a = crate::driver::guard(|| view::row_flat(&st.frame(i)));
								let b = crate::driver::guard(|| view::row_flat(&one.frame(i)));
								match (a, b) {
									(Ok(a), Ok(b)) => {
										// compare only characters present in the row (absent ones hold padding)
										let present_eq = a.iter().all(|(k, v)| b.get(k) == Some(v) || !row_char_present(&one_cols, k, i));
										if !present_eq || a.len() != b.len() {
											let k = a.iter().find(|(k, v)| b.get(*k) != Some(*v) && row_char_present(&one_cols, k, i)).map(|(k, _)| k.clone()).unwrap_or_default();
											problems.push(("completed-row-differs".into(), format!("after {:?}: completed row {} differs from the one-shot row at {}", step, i, k)));
										}
									}
									(Err(p), _) => problems.push(("completed-row-panic".into(), format!("after {:?}: ParseState::frame({}) panicked: {}", step, i, p.msg))),
									_ => {}
								}
							} else {
								problems.push(("extra-rows".into(), format!("after {:?}: {} completed rows but the one-shot game has {}", step, completed, one_cols.rows)));
							}
						}
					}
				}
			});
			match r {
				Ok(st) => {
					compare_final(&st, &one, &one_cols, closes_on_end, &mut problems);
				}
				Err(f) => problems.push((format!("incremental-failed;{}", f.sig()), f.text())),
			}
			for (sig, d) in problems.into_iter().take(2) {
				out.violate(format!("{};sched={}", sig, pol.name()), format!("{} under schedule {:?}: {}", desc, pol, d), Some(&bytes));
			}
			if out.violations.len() >= 4 {
				break;
			}
		}
		// Streams that END inside the raw element (a replay still being written, a cut file): every
		// call that returns Ok must still account for exactly the bytes delivered, and the run as a
		// whole must fail like the one-shot reader does, not report a finished game.
		if truth.declared_raw_len > 0 && out.violations.is_empty() {
			let p = crate::mutate::split(&bytes, &truth);
			let mut off = 15 + 2 + 3 * p.table.len();
			let mut cuts: Vec<usize> = vec![];
			let raw_end = (15 + truth.declared_raw_len as usize).min(bytes.len());
			for (code, pl) in &p.events {
				let known = matches!(*code, 0x10 | 0x36..=0x3d);
				if !known && pl.len() >= 2 {
					// inside an unknown event: after its code byte, in the middle, one byte short
					cuts.extend([off + 1, off + 1 + pl.len() / 2, off + pl.len()]);
				}
				off += 1 + pl.len();
			}
			cuts.truncate(9);
			for _ in 0..4 {
				cuts.push(rng.range(16, raw_end.max(18) - 1));
			}
			for cut in cuts.into_iter().filter(|c| *c >= 16 && *c < raw_end) {
				out.evals += 1;
				let pol = if cut % 2 == 0 { Policy::Whole } else { Policy::Fixed(7) };
				let mut src = Src::new(Arc::new(bytes[..cut].to_vec()), pol.clone());
				let stats = src.stats();
				let mut problem: Option<String> = None;
				let r = common::incremental(&mut src, |st, step, _| {
					calls_monitored += 1;
					if matches!(step, Step::Start | Step::Event(_)) && problem.is_none() {
						let delivered = stats.bytes();
						if st.bytes_read() + 15 != delivered {
							problem = Some(format!("after {:?}: bytes_read()={} but the stream cut at {} delivered only {} (-15 header = {})", step, st.bytes_read(), cut, delivered, delivered as i64 - 15));
						}
					}
				});
				if let Some(d) = problem {
					out.violate(format!("bytes_read;truncated-stream;sched={}", pol.name()), format!("{} cut at byte {}: {}", desc, cut, d), Some(&bytes[..cut]));
				} else if r.is_ok() {
					out.violate("truncated-stream-accepted", format!("{} cut at byte {} of {} (inside the raw element): the incremental run reported a complete game", desc, cut, bytes.len()), Some(&bytes[..cut]));
				} else if matches!(r, Err(common::Fail::Panic(_))) {
					out.count("truncated_stream_panicked(C06's business)", 1);
				} else {
					out.count("truncated_streams_rejected_with_exact_accounting", 1);
				}
				if out.violations.len() >= 2 {
					break;
				}
			}
			out.class("truncated-streams".to_string());
		}
		// Interleaved parsing: this replay and a generated sibling (same version and ports, other
		// frames and gecko/metadata of its own), and this replay and a replay of another version, are
		// driven alternately, one call each, on this thread; each must equal its own one-shot game.
		if !big && idx % 3 == 0 && out.violations.is_empty() {
			let mut r4 = crate::rng::Rng::derive(ctx.seed, 0xC12E ^ idx as u64);
			let other_ver = *r4.pick(&[(0u8, 1u8, 0u8), (1, 0, 0), (2, 0, 1), (2, 2, 0), (3, 0, 0), (3, 7, 0), (3, 16, 0)]);
			let ver = if (idx / 3) % 2 == 0 { truth.version } else { other_ver };
			let sib = common::sibling_game(ver, &truth.start, 2 + idx % 9, &mut r4).map(|mut b| {
				if (idx / 6) % 2 == 0 {
					// give the sibling a gecko list and metadata of its own where the version has them
					if let Ok(m) = crate::model::parse(&b) {
						let mut s2 = crate::gen::base_spec(ver, common::spec_ports(&m.start), 2 + idx % 9);
						if crate::spec::gte((ver.0, ver.1), (3, 3)) {
							s2.gecko_blocks = 1 + idx % 3;
							s2.gecko_tail = idx % 500;
						}
						s2.metadata = Some(crate::gen::gen_meta(&mut r4, 1, 3));
						b = crate::gen::build(&s2, &mut r4).bytes;
					}
				}
				b
			});
			if let Some(sib) = sib {
				if let Ok(one_b) = common::slp_read(&sib, false, false) {
					out.evals += 1;
					match interleaved(&bytes, &sib) {
						Ok((sa, sb, calls)) => {
							calls_monitored += calls;
							let mut pa: Vec<(String, String)> = vec![];
							compare_final(&sa, &one, &one_cols, closes_on_end, &mut pa);
							let ob_cols = view::cols_imm(&one_b.frames);
							let mut pb: Vec<(String, String)> = vec![];
							compare_final(&sb, &one_b, &ob_cols, crate::spec::gte((ver.0, ver.1), (3, 0)), &mut pb);
							for (sig, d) in pa.into_iter().chain(pb.into_iter()).take(2) {
								out.violate(format!("{};interleaved", sig), format!("{} parsed event by event, interleaved with another replay (v{}.{}.{}) on the same thread: {}", desc, ver.0, ver.1, ver.2, d), Some(&bytes));
							}
							out.count("interleaved_pairs_equal_to_their_one_shot_games", 1);
						}
						Err(common::Fail::Panic(p)) => out.violate(format!("interleaved-panic;{}", crate::driver::norm_msg(&p.msg)), format!("{} interleaved with another replay: panic at {}: {}", desc, p.loc, p.msg), Some(&bytes)),
						Err(f) => out.violate(format!("interleaved-failed;{}", f.sig()), format!("{} interleaved with another replay (v{}.{}.{}): {}", desc, ver.0, ver.1, ver.2, f.text()), Some(&bytes)),
					}
					out.class(format!("interleaved|{}", if ver == truth.version { "same-version-sibling" } else { "other-version" }));
				}
			}
		}
		out.count("calls_monitored", calls_monitored);
		if idx % 50 == 0 {
			out.sample = Some(json!({"case": idx, "input": desc, "schedules": policies.len(), "two_piece_splits_exhaustive": all_splits, "incremental_calls_monitored": calls_monitored}));
		}
		out
	}
}

/// Two replays parsed event by event on ONE thread, their calls interleaved (A's event, B's event,
/// A's event, ...): whatever the library keeps outside the two `ParseState` values would mix.
fn interleaved(a: &[u8], b: &[u8]) -> Result<(peppi::io::slippi::de::ParseState, peppi::io::slippi::de::ParseState, u64), common::Fail> {
	use crate::driver::guard;
	use peppi::io::slippi::de;
	use std::io::Read;
	fn flat<T>(r: Result<Result<T, peppi::io::Error>, crate::driver::Panic>) -> Result<T, common::Fail> {
		match r {
			Ok(Ok(v)) => Ok(v),
			Ok(Err(e)) => Err(common::Fail::Err(e.to_string())),
			Err(p) => Err(common::Fail::Panic(p)),
		}
	}
	let (mut ra, mut rb) = (std::io::Cursor::new(a), std::io::Cursor::new(b));
	let la = flat(guard(|| de::parse_header(&mut ra, None)))? as usize;
	let lb = flat(guard(|| de::parse_header(&mut rb, None)))? as usize;
	let mut sa = flat(guard(|| de::parse_start(&mut ra, None)))?;
	let mut sb = flat(guard(|| de::parse_start(&mut rb, None)))?;
	let (mut da, mut db, mut calls) = (false, false, 0u64);
	while !(da && db) {
		if !da {
			if la > 0 && sa.bytes_read() >= la {
				da = true;
			} else {
				da = flat(guard(|| de::parse_event(&mut ra, &mut sa, None)))? == 0x39;
				calls += 1;
			}
		}
		if !db {
			if lb > 0 && sb.bytes_read() >= lb {
				db = true;
			} else {
				db = flat(guard(|| de::parse_event(&mut rb, &mut sb, None)))? == 0x39;
				calls += 1;
			}
		}
	}
	for (r, st, l) in [(&mut ra, &mut sa, la), (&mut rb, &mut sb, lb)] {
		if st.bytes_read() < l {
			let want = (l - st.bytes_read()) as u64;
			let _ = std::io::copy(&mut Read::take(&mut *r, want), &mut std::io::sink());
		}
		let mut c = [0u8; 1];
		r.read_exact(&mut c).map_err(|e| common::Fail::Err(e.to_string()))?;
		if c[0] == 0x55 {
			flat(guard(|| de::parse_metadata(&mut *r, &mut *st, None)))?;
		}
	}
	Ok((sa, sb, calls))
}

/// Final comparison of an incremental parse state with the one-shot game of the same bytes.
fn compare_final(st: &peppi::io::slippi::de::ParseState, one: &peppi::game::immutable::Game, one_cols: &view::Cols, closes_on_end: bool, problems: &mut Vec<(String, String)>) {
	// final comparison
	if !common::same_start(st.start(), &one.start) {
		problems.push(("final-start".into(), "final start differs".into()));
	}
	if st.end() != &one.end {
		problems.push(("final-end".into(), "final end differs".into()));
	}
	if st.metadata() != &one.metadata {
		problems.push(("final-metadata".into(), "final metadata differs".into()));
	}
	if st.gecko_codes() != &one.gecko_codes {
		problems.push(("final-gecko".into(), "final gecko codes differ".into()));
	}
	let mc = view::cols_mut(st.frames());
	let mut n = one_cols.rows;
	if !closes_on_end && n > 0 {
		// last row is open: comparable only if every column already has n entries
		let complete = mc.leaves.iter().all(|(p, (_, v))| p.starts_with("item.") || v.len() == n);
		if !complete {
			n -= 1;
		}
	}
	let (a, b) = (truncate_cols(&mc, n), truncate_cols(&one_cols, n));
	if a.rows != b.rows {
		problems.push(("final-rows".into(), format!("incremental has {} rows, one-shot {}", mc.rows, one_cols.rows)));
	}
	for (path, (ty, vals)) in &b.leaves {
		match a.leaves.get(path) {
			Some((t2, v2)) if t2 == ty && cols_equal_where_present(&b, path, vals, v2) => {}
			Some(_) => {
				problems.push(("final-column-differs".into(), format!("column {} differs between incremental and one-shot", path)));
				break;
			}
			None => {
				problems.push(("final-column-missing".into(), format!("column {} missing in incremental state", path)));
				break;
			}
		}
	}
	for (path, v) in &b.validity {
		if path.ends_with(".leader") || path.ends_with(".follower") {
			let want = v.clone().unwrap_or_else(|| vec![true; b.rows]);
			let got = a.validity.get(path).cloned().flatten().unwrap_or_else(|| vec![true; a.rows]);
			if want != got {
				problems.push(("final-presence-differs".into(), format!("presence of {} differs", path)));
			}
		}
	}
	if a.item_offsets.as_ref().map(|o| o.len()) == b.item_offsets.as_ref().map(|o| o.len()) && a.item_offsets != b.item_offsets {
		problems.push(("final-item-offsets".into(), "item offsets differ".into()));
	}
	let _ = truncate_expected;
}

/// Is the character owning field `key` (row-view path) present at row i?
fn row_char_present(c: &view::Cols, key: &str, i: usize) -> bool {
	if !key.starts_with("ports.") {
		return true;
	}
	let parts: Vec<&str> = key.split('.').collect();
	if parts.len() < 3 {
		return true;
	}
	let who = format!("ports.{}.{}", parts[1], parts[2]);
	match c.validity.get(&who) {
		Some(Some(bits)) => bits.get(i).copied().unwrap_or(true),
		_ => true,
	}
}

/// Equality of two columns on the rows where the owning character is present.
fn cols_equal_where_present(c: &view::Cols, path: &str, a: &[u64], b: &[u64]) -> bool {
	if a.len() != b.len() {
		return false;
	}
	if !path.starts_with("ports.") {
		return a == b;
	}
	(0..a.len()).all(|i| a[i] == b[i] || !row_char_present(c, path, i))
}
