//! C18: .slpp is a tar starting with peppi.json whose entries agree with each other.

use super::c01::case_input;
use super::c14::empty_struct_class;
use crate::common::{self, Comp, Space};
use crate::driver::{CaseOut, Ctx, Monitor, Tier};
use crate::rng::Rng;
use crate::{jsonord, tarx};
use serde_json::json;

pub struct C18 {
	quick: Space,
	thorough: Space,
	fixtures: Vec<(String, Vec<u8>)>,
}

impl C18 {
	pub fn new() -> Self {
		let mut q = Space::new(false);
		q.n_random = 500;
		let mut t = Space::new(true);
		t.n_random = 20000;
		C18 { quick: q, thorough: t, fixtures: common::fixtures() }
	}
	fn n_main(&self, tier: Tier) -> usize {
		self.fixtures.len() + tier.pick(&self.quick, &self.thorough).len()
	}
}

fn games_equal(a: &peppi::game::immutable::Game, b: &peppi::game::immutable::Game) -> Result<(), String> {
	if !common::same_start(&a.start, &b.start) {
		return Err("start".into());
	}
	if a.end != b.end {
		return Err("end".into());
	}
	if a.metadata != b.metadata {
		return Err("metadata".into());
	}
	if a.gecko_codes != b.gecko_codes {
		return Err("gecko".into());
	}
	if a.hash != b.hash || a.quirks.map(|q| q.double_game_end) != b.quirks.map(|q| q.double_game_end) {
		return Err("hash/quirks".into());
	}
	match (common::slp_write(a), common::slp_write(b)) {
		(Ok(x), Ok(y)) if x == y => Ok(()),
		(Ok(_), Ok(_)) => Err("frames (serialised .slp differs)".into()),
		_ => Err("cannot serialise".into()),
	}
}

impl Monitor for C18 {
	fn id(&self) -> &'static str {
		"C18"
	}
	fn rule(&self) -> String {
		"C01's replay space (versions/ports writable to .slpp) x compression. Every archive peppi::write produces is parsed by the harness's own tar reader. Oracle: bytes 0..10 are 'peppi.json'; entry names in order = peppi.json, metadata.json, start.json, start.raw, [end.json, end.raw iff the game has an end], [gecko_codes.raw iff gecko codes], frames.arrow last (required when rows > 0; with zero rows either choice is accepted); every *.json entry parses as JSON (own parser) and is byte-equal to serde's rendering of what peppi::read reconstructs from the archive; start.raw/end.raw equal the original blocks; writing the same game twice gives identical bytes - back to back, and again >= 1.3 s later from a child process that runs with SOURCE_DATE_EPOCH, TZ, LC_ALL and LANG set (whose archive must also read back) - also when a write into a sink that fails after k bytes (5 positions) happened in between on the same thread (the failure must surface as Err). Unknown entries (random sizes; ordinary names, sub-directory names, directory entries such as './', a non-UTF-8 name, a name differing only in case, names that merely end like a known entry (old_peppi.json, restart.raw, ...), pax global header / volume label / link members; written with the harness's tar writer) inserted at EVERY position before frames.arrow must not change the game read. Format-version gate: peppi.json rewritten with version triples on both sides of 2.0.0 (quick: boundary neighbourhood + random; thorough adds all (major,minor,0) and random triples): < 2.0.0 must be rejected, >= 2.0.0 accepted, with the reader's skip_frames option off and on. distinct = workload classes x compression + entry-order shapes + insertion positions + version sides.".into()
	}
	fn assumptions(&self) -> Vec<String> {
		vec!["versions 3.0-3.6 and empty port sets are skipped (peppi::write panics there: known finding under C02/C14)".into()]
	}
	fn n_cases(&self, ctx: &Ctx) -> usize {
		self.n_main(ctx.tier) + ctx.tier.pick(8, 64) + ctx.tier.pick(3, 12)
	}
	fn min_classes(&self, tier: Tier) -> usize {
		tier.pick(60, 100)
	}
	fn run(&self, ctx: &Ctx, idx: usize) -> CaseOut {
		let mut out = CaseOut::default();
		let nm = self.n_main(ctx.tier);
		if idx >= nm + ctx.tier.pick(8, 64) {
			return self.across_time_and_processes(idx - nm - ctx.tier.pick(8, 64));
		}
		if idx >= nm {
			return self.version_gate(ctx, idx - nm);
		}
		let Some((desc, bytes, truth)) = case_input(ctx.tier.pick(&self.quick, &self.thorough), &self.fixtures, ctx.seed, idx, &mut out) else { return out };
		let nports = crate::view::occupied_chars(&truth.start).iter().filter(|c| !c.1).count();
		if empty_struct_class(truth.v(), nports) != "other" {
			out.classes.clear();
			out.count("skipped_known_finding_inputs", 1);
			return out;
		}
		let base: Vec<String> = out.classes.iter().take(3).cloned().collect();
		out.classes.clear();
		let comp = Comp::ALL[idx % 3];
		let hash = idx % 2 == 0;
		out.evals = 1;
		for c in &base {
			out.class(format!("{} comp={}", c, comp.name()));
		}
		let (g1, g2) = match (common::slp_read(&bytes, false, hash), common::slp_read(&bytes, false, hash)) {
			(Ok(a), Ok(b)) => (a, b),
			_ => return out, // C01's business
		};
		let has_end = g1.end.is_some();
		let has_gecko = g1.gecko_codes.is_some();
		let rows = g1.frames.id.len();
		let (a1, a2) = match (common::slpp_write(g1, comp), common::slpp_write(g2, comp)) {
			(Ok(a), Ok(b)) => (a, b),
			(Err(f), _) | (_, Err(f)) => {
				out.violate(format!("slpp-write-failed;{}", f.sig()), format!("{}: {}", desc, f.text()), Some(&bytes));
				return out;
			}
		};
		if a1 != a2 {
			out.violate("nondeterministic-write", format!("{}: two writes of the same game differ: {}", desc, common::first_diff(&a1, &a2)), Some(&bytes));
		}
		if a1.len() < 10 || &a1[..10] != b"peppi.json" {
			out.violate("signature-not-at-offset-0", format!("{}: archive does not start with 'peppi.json'", desc), Some(&bytes));
		}
		let (entries, _) = match tarx::read(&a1) {
			Ok(x) => x,
			Err(e) => {
				out.violate("not-a-tar", format!("{}: independent tar reader rejects the archive: {}", desc, e), Some(&bytes));
				return out;
			}
		};
		let names: Vec<&str> = entries.iter().map(|e| e.name.as_str()).collect();
		let mut want: Vec<&str> = vec!["peppi.json", "metadata.json", "start.json", "start.raw"];
		if has_end {
			want.extend(["end.json", "end.raw"]);
		}
		if has_gecko {
			want.push("gecko_codes.raw");
		}
		let mut want_with = want.clone();
		want_with.push("frames.arrow");
		let ok = names == want_with || (rows == 0 && names == want);
		out.class(format!("entries={}", names.join(",")));
		if !ok {
			out.violate("entry-order", format!("{}: entries {:?}, want {:?}", desc, names, want_with), Some(&bytes));
		}
		// raw entries
		let find = |n: &str| entries.iter().find(|e| e.name == n);
		if let Some(e) = find("start.raw") {
			if e.data != truth.start {
				out.violate("start-raw-differs", format!("{}: start.raw differs from the Game Start block", desc), Some(&bytes));
			}
		}
		if let (Some(e), Some(end)) = (find("end.raw"), truth.ends.first()) {
			if &e.data != end {
				out.violate("end-raw-differs", format!("{}: end.raw differs from the Game End block", desc), Some(&bytes));
			}
		}
		// what the reader reconstructs
		let rg = match common::slpp_read(&a1, false) {
			Ok(g) => g,
			Err(f) => {
				out.violate(format!("slpp-read-failed;{}", f.sig()), format!("{}: {}", desc, f.text()), Some(&bytes));
				return out;
			}
		};
		for (name, rendered) in [("start.json", serde_json::to_vec(&rg.start).ok()), ("end.json", rg.end.as_ref().and_then(|e| serde_json::to_vec(e).ok())), ("metadata.json", serde_json::to_vec(&rg.metadata).ok())] {
			if let Some(e) = find(name) {
				if let Err(er) = jsonord::parse(&e.data) {
					out.violate(format!("json-invalid;{}", name), format!("{}: {} is not valid JSON: {}", desc, name, er), Some(&bytes));
				}
				match rendered {
					Some(r) if r == e.data => out.count("json_entries_agree", 1),
					_ => out.violate(format!("json-disagrees;{}", name), format!("{}: {} differs from the JSON rendering of what the reader reconstructs", desc, name), Some(&bytes)),
				}
			}
		}
		if let Some(e) = find("peppi.json") {
			match jsonord::parse(&e.data) {
				Ok(jsonord::J::Obj(o)) => {
					let ver = o.iter().find(|(k, _)| k == "version").map(|(_, v)| v.clone());
					if ver != Some(jsonord::J::Arr(vec![jsonord::J::Num("2".into()), jsonord::J::Num("0".into()), jsonord::J::Num("0".into())])) {
						out.violate("peppi-json-version", format!("{}: peppi.json version is {:?}", desc, ver), Some(&bytes));
					}
					let h = o.iter().find(|(k, _)| k == "slp_hash").map(|(_, v)| v.clone());
					let want_h = rg.hash.clone().map(jsonord::J::Str);
					if h != want_h {
						out.violate("peppi-json-hash", format!("{}: peppi.json slp_hash {:?} but reader reports {:?}", desc, h, rg.hash), Some(&bytes));
					}
				}
				_ => out.violate("json-invalid;peppi.json", format!("{}: peppi.json is not a JSON object", desc), Some(&bytes)),
			}
		}
		// fault sequence on the writer: a write into a sink that fails after k bytes must not
		// influence what the next write of the same game produces (same thread)
		if bytes.len() < 200_000 {
			for k in [0usize, 511, a1.len() / 2, a1.len().saturating_sub(1500), a1.len().saturating_sub(1)] {
				if let Ok(g) = common::slp_read(&bytes, false, hash) {
					out.evals += 1;
					let opts = peppi::io::peppi::ser::Opts { compression: match comp { Comp::None => None, Comp::Lz4 => Some(arrow2::io::ipc::write::Compression::LZ4), Comp::Zstd => Some(arrow2::io::ipc::write::Compression::ZSTD) } };
					let r = crate::driver::guard(move || {
						let mut sink = FailingSink { left: k };
						peppi::io::peppi::write(&mut sink, g, Some(&opts)).map_err(|e| e.to_string())
					});
					match r {
						Ok(Err(_)) => out.count("failing_sink_surfaced_as_err", 1),
						Ok(Ok(())) => out.violate("write-error-swallowed", format!("{}: sink failed after {} bytes but peppi::write returned Ok", desc, k), Some(&bytes)),
						Err(p) => out.violate(format!("write-panic-on-sink-error;{}", crate::driver::norm_msg(&p.msg)), format!("{}: sink failing after {} bytes -> panic at {}: {}", desc, k, p.loc, p.msg), Some(&bytes)),
					}
					if let Ok(g2) = common::slp_read(&bytes, false, hash) {
						match common::slpp_write(g2, comp) {
							Ok(a3) if a3 == a1 => out.count("rewrite_after_failed_write_identical", 1),
							Ok(a3) => out.violate("write-depends-on-earlier-failed-write", format!("{}: after a write that failed at byte {}, writing the same game again gives different bytes: {}", desc, k, common::first_diff(&a1, &a3)), Some(&bytes)),
							Err(f) => out.violate(format!("write-fails-after-earlier-failed-write;{}", f.sig()), format!("{}: {}", desc, f.text()), Some(&bytes)),
						}
					}
				}
			}
			out.class("writer-fault-sequence".to_string());
		}
		// unknown entries at every position before frames.arrow
		let mut rng = Rng::derive(ctx.seed, 0xC18 ^ idx as u64);
		if bytes.len() < 200_000 {
			let last = entries.iter().position(|e| e.name == "frames.arrow").unwrap_or(entries.len());
			for pos in 0..=last {
				// position 0 would displace peppi.json from offset 0: the reader must still cope, but
				// the signature guarantee is about what the writer emits, so it is included
				let mut es = entries.clone();
				let n = *rng.pick(&[0usize, 1, 511, 512, 513, 2000]);
				// ordinary names, names in sub-directories, directory entries ("./" as `tar -C dir .`
				// emits), names that are not UTF-8, and names that merely resemble known ones
				// ... names that merely END like a known entry, and non-file members (pax global header,
				// GNU volume label, hard/symbolic link) as other tar producers emit them
				let names: [(&[u8], u8); 19] = [(b"unknown.bin", b'0'), (b"notes.txt", b'0'), (b"frames.arrow.bak", b'0'), (b"zz/extra.json", b'0'), (b"start.raw.old", b'0'), (b"./", b'5'), (b"caf\xe9.txt", b'0'), (b"extra/", b'5'), (b".", b'5'), (b"PEPPI.JSON", b'0'), (b"old_peppi.json", b'0'), (b"restart.raw", b'0'), (b"tournament_metadata.json", b'0'), (b"custom_gecko_codes.raw", b'0'), (b"legend.raw", b'0'), (b"pax_global_header", b'g'), (b"volume-label", b'V'), (b"link-to-start", b'1'), (b"symlink", b'2')];
				let (name_bytes, flag) = *rng.pick(&names);
				let name = String::from_utf8_lossy(name_bytes).to_string();
				let n = if flag == b'5' || flag == b'V' || flag == b'1' || flag == b'2' { 0 } else if flag == b'g' { 0 } else { n };
				let data = rng.bytes(n);
				es.insert(pos, tarx::Entry { name: name.clone(), data: data.clone(), header_at: 0, header: tarx::header_for_bytes(name_bytes, n, flag) });
				let arch = tarx::write(&es);
				out.evals += 1;
				out.class(format!("unknown-entry@{}", pos.min(8)));
				match common::slpp_read(&arch, false) {
					Ok(g) => {
						if let Err(what) = games_equal(&g, &rg) {
							out.violate("unknown-entry-changes-game", format!("{}: inserting unknown entry {:?} ({} bytes) at position {} changes {}", desc, name, n, pos, what), Some(&arch));
						} else {
							out.count("unknown_entries_ignored", 1);
						}
					}
					Err(f) => out.violate(format!("unknown-entry-rejected;{}", f.sig()), format!("{}: inserting unknown entry {:?} ({} bytes) at position {} makes the read fail: {}", desc, name, n, pos, f.text()), Some(&arch)),
				}
			}
		}
		if idx % 40 == 0 {
			out.sample = Some(json!({"case": idx, "input": desc, "comp": comp.name(), "archive_bytes": a1.len(), "entries": names, "observed": if out.violations.is_empty() { "order, JSON agreement, determinism, unknown-entry tolerance ok" } else { "FAILED" }}));
		}
		out
	}
}

impl C18 {
	/// Determinism across wall-clock time, processes and environment variables: the same game
	/// written now in this process, and >= 1.2 s later in a child process that runs with
	/// SOURCE_DATE_EPOCH / TZ / LC_ALL / LANG set, must give identical bytes, and the child's
	/// archive must read back as the same game.
	fn across_time_and_processes(&self, k: usize) -> CaseOut {
		let mut out = CaseOut::default();
		let seeds = super::c06::seeds();
		// seeds with and without metadata (index % 4 == 3 has none), writable to .slpp
		let order = [3usize, 0, 7, 9, 4, 1, 2, 8, 11, 10, 6, 5];
		let si = order[k % order.len()];
		let seed = &seeds[si];
		let comp = Comp::ALL[k % 3];
		let Ok(g) = common::slp_read(&seed.bytes, false, true) else { return out };
		let Ok(a) = common::slpp_write(g, comp) else {
			out.count("skipped_known_finding_inputs", 1);
			return out;
		};
		std::thread::sleep(std::time::Duration::from_millis(1300));
		let dir = crate::driver::verif_root().join("work").join("C18");
		let _ = std::fs::create_dir_all(&dir);
		let path = dir.join(format!("child-{}-{}.slpp", std::process::id(), k));
		let st = std::process::Command::new(std::env::current_exe().expect("exe"))
			.args(["write-slpp", &si.to_string(), comp.name(), path.to_str().unwrap()])
			.env("SOURCE_DATE_EPOCH", "1700000000")
			.env("TZ", "Asia/Tokyo")
			.env("LC_ALL", "ja_JP.UTF-8")
			.env("LANG", "ja_JP.UTF-8")
			.status();
		out.evals = 1;
		out.class(format!("across-time-and-processes|metadata={}|comp={}", seed.model.metadata.is_some(), comp.name()));
		match (st, std::fs::read(&path)) {
			(Ok(s), Ok(b)) if s.success() => {
				if b != a {
					out.violate("write-depends-on-time-process-or-environment", format!("[{}] comp={}: the archive written 1.3 s later by a child process (SOURCE_DATE_EPOCH/TZ/LC_ALL set) differs: {}", seed.name, comp.name(), common::first_diff(&a, &b)), Some(&seed.bytes));
				}
				match common::slpp_read(&b, false).and_then(|g2| common::slp_write(&g2)) {
					Ok(w) if w == seed.bytes => out.count("child_archive_reads_back", 1),
					Ok(_) => out.violate("child-archive-reads-differently", format!("[{}]: archive written by the child process reads back as a different game", seed.name), Some(&b)),
					Err(f) => out.violate(format!("child-archive-unreadable;{}", f.sig()), format!("[{}]: archive written by the child process (SOURCE_DATE_EPOCH set) cannot be read: {}", seed.name, f.text()), Some(&b)),
				}
			}
			(st, _) => out.inconclusive.push(format!("child writer did not produce an archive: {:?}", st.map(|s| s.code()))),
		}
		let _ = std::fs::remove_file(&path);
		out.sample = Some(json!({"case": "across-time-and-processes", "seed": seed.name, "comp": comp.name(), "archive_bytes": a.len()}));
		out
	}

	fn version_gate(&self, ctx: &Ctx, k: usize) -> CaseOut {
		let mut out = CaseOut::default();
		let mut rng = Rng::derive(ctx.seed, 0x18_0000 + k as u64);
		let spec = crate::gen::base_spec((3, 16, 0), vec![(0, false), (1, false)], 2);
		let built = crate::gen::build(&spec, &mut rng);
		let Ok(g) = common::slp_read(&built.bytes, false, true) else { return out };
		let Ok(arch) = common::slpp_write(g, Comp::None) else { return out };
		let Ok((entries, _)) = tarx::read(&arch) else { return out };
		let mut versions: Vec<(u8, u8, u8)> = vec![];
		if k == 0 {
			for a in [0u8, 1, 2, 3, 255] {
				for b in [0u8, 1, 255] {
					for c in [0u8, 1, 255] {
						versions.push((a, b, c));
					}
				}
			}
		}
		if ctx.tier == Tier::Thorough {
			for b in 0..=255u8 {
				versions.push((k as u8, b, 0));
				versions.push((k as u8 + 64, b, 1));
				versions.push((k as u8 + 128, b, 255));
				versions.push((k as u8 + 192, b, b));
			}
		}
		for _ in 0..ctx.tier.pick(150, 1500) {
			versions.push((rng.below(4) as u8, rng.byte(), rng.byte()));
			versions.push((rng.byte(), rng.byte(), rng.byte()));
		}
		for v in versions {
			let mut es = entries.clone();
			let Ok(jsonord::J::Obj(o)) = jsonord::parse(&es[0].data) else { return out };
			let hash = o.iter().find(|(k, _)| k == "slp_hash").and_then(|(_, v)| if let jsonord::J::Str(s) = v { Some(s.clone()) } else { None });
			es[0].data = match hash {
				Some(h) => format!("{{\"version\":[{},{},{}],\"slp_hash\":\"{}\"}}", v.0, v.1, v.2, h),
				None => format!("{{\"version\":[{},{},{}]}}", v.0, v.1, v.2),
			}
			.into_bytes();
			let a = tarx::write(&es);
			let below = v < (2, 0, 0);
			for skip in [false, true] {
				out.evals += 1;
				match common::slpp_read(&a, skip) {
					Ok(_) if below => out.violate(format!("old-format-version-accepted;skip_frames={}", skip), format!("peppi format version {}.{}.{} < 2.0.0 was accepted (skip_frames={})", v.0, v.1, v.2, skip), Some(&a)),
					Ok(_) => out.count("current_or_newer_accepted", 1),
					Err(f) if !below => out.violate(format!("supported-format-version-rejected;{}", f.sig()), format!("peppi format version {}.{}.{} >= 2.0.0 was rejected (skip_frames={}): {}", v.0, v.1, v.2, skip, f.text()), Some(&a)),
					Err(_) => out.count("old_rejected", 1),
				}
			}
			out.class(format!("format-version|{}|major={}", if below { "below-min" } else { "at-or-above-min" }, v.0.min(3)));
		}
		out.sample = Some(json!({"case": "version-gate", "versions_tried": out.evals, "outcomes": out.counters}));
		out
	}
}

/// A sink that accepts `left` bytes and then fails (disk full / closed pipe).
struct FailingSink {
	left: usize,
}

impl std::io::Write for FailingSink {
	fn write(&mut self, buf: &[u8]) -> std::io::Result<usize> {
		if self.left == 0 {
			return Err(std::io::Error::new(std::io::ErrorKind::Other, "injected sink failure"));
		}
		let n = buf.len().min(self.left);
		self.left -= n;
		Ok(n)
	}
	fn flush(&mut self) -> std::io::Result<()> {
		Ok(())
	}
}
