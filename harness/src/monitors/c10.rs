//! C10: skip-frames parsing returns the same start, end and metadata as a full parse.

use super::c01::case_input;
use crate::common::{self, Comp, Space};
use crate::driver::{CaseOut, Ctx, Monitor, Tier};
use serde_json::json;

pub struct C10 {
	quick: Space,
	thorough: Space,
	fixtures: Vec<(String, Vec<u8>)>,
}

impl C10 {
	pub fn new() -> Self {
		let mut q = Space::new(false);
		q.n_random = 4000;
		let mut t = Space::new(true);
		t.n_random = 200000;
		C10 { quick: q, thorough: t, fixtures: common::fixtures() }
	}
}

impl Monitor for C10 {
	fn id(&self) -> &'static str {
		"C10"
	}
	fn rule(&self) -> String {
		"C01's replay space restricted to finished files (Game End present: single or doubled), all versions/layouts, gecko 0/1/3+ blocks, metadata/none, frame counts 0/1/many, x hash {off,on}. Oracle: slippi::read with skip_frames returns start, end, metadata equal to the full read and zero frame rows; the skip result can be written as .slp and re-read to the same start/end/metadata, and written as .slpp and re-read; peppi::read with skip_frames on the .slpp of the full game returns the same start/end/metadata/gecko/hash and zero rows. One evaluation = one (file, hash) pair. distinct = workload classes x hash.".into()
	}
	fn assumptions(&self) -> Vec<String> {
		vec![".slpp legs are skipped (counted) for versions 3.0-3.6 / empty port sets, where peppi::write panics (known finding under C02/C14)".into()]
	}
	fn n_cases(&self, ctx: &Ctx) -> usize {
		self.fixtures.len() + ctx.tier.pick(&self.quick, &self.thorough).len()
	}
	fn min_classes(&self, tier: Tier) -> usize {
		tier.pick(80, 150)
	}
	fn run(&self, ctx: &Ctx, idx: usize) -> CaseOut {
		let mut out = CaseOut::default();
		let Some((desc, bytes, truth)) = case_input(ctx.tier.pick(&self.quick, &self.thorough), &self.fixtures, ctx.seed, idx, &mut out) else { return out };
		if truth.ends.is_empty() {
			// not a finished replay: outside C10 (skip mode must refuse or fail; C06/C07)
			out.classes.clear();
			return out;
		}
		let base: Vec<String> = out.classes.iter().cloned().collect();
		out.classes.clear();
		let slpp_ok = super::c14::empty_struct_class(truth.v(), crate::view::occupied_chars(&truth.start).iter().filter(|c| !c.1).count()) == "other";
		for hash in [false, true] {
			out.evals += 1;
			for c in &base {
				out.class(format!("{} hash={}", c, hash));
			}
			let full = match common::slp_read(&bytes, false, hash) {
				Ok(g) => g,
				Err(f) => {
					out.violate(format!("full-read-failed;{}", f.sig()), format!("{}: {}", desc, f.text()), Some(&bytes));
					return out;
				}
			};
			let skip = match common::slp_read(&bytes, true, hash) {
				Ok(g) => g,
				Err(f) => {
					out.violate(format!("skip-read-failed;{}", f.sig()), format!("{}: skip-frames read of a finished replay failed: {}", desc, f.text()), Some(&bytes));
					continue;
				}
			};
			let mut diffs = vec![];
			if !common::same_start(&skip.start, &full.start) {
				diffs.push("start");
			}
			if skip.end != full.end {
				diffs.push("end");
			}
			if skip.metadata != full.metadata {
				diffs.push("metadata");
			}
			// hash equality across skip on/off is C11's statement; quirks are not part of C10's
			if skip.hash != full.hash {
				out.count("hash_differs_between_skip_and_full(see C11)", 1);
			}
			if skip.frames.id.len() != 0 {
				diffs.push("frames-not-empty");
			}
			if !diffs.is_empty() {
				out.violate(format!("skip-differs;{}", diffs.join("+")), format!("{} (hash={}): skip-frames result differs from full parse in: {}", desc, hash, diffs.join(", ")), Some(&bytes));
			}
			// the skip result can be written out and re-read (.slp)
			match common::slp_write(&skip) {
				Ok(w) => match common::slp_read(&w, false, false) {
					Ok(g) => {
						if !common::same_start(&g.start, &full.start) || g.end != full.end || g.metadata != full.metadata || g.frames.id.len() != 0 {
							out.violate("skip-result-slp-reread-differs", format!("{}: skip result written as .slp re-reads differently", desc), Some(&bytes));
						} else {
							out.count("skip_result_slp_roundtrips", 1);
						}
					}
					Err(f) => out.violate(format!("skip-result-slp-reread-failed;{}", f.sig()), format!("{}: skip result written as .slp cannot be re-read: {}", desc, f.text()), Some(&bytes)),
				},
				Err(f) => out.violate(format!("skip-result-slp-write-failed;{}", f.sig()), format!("{}: skip result cannot be written as .slp: {}", desc, f.text()), Some(&bytes)),
			}
			if !slpp_ok {
				out.count("slpp_legs_skipped_known_finding", 1);
				continue;
			}
			// ... and as .slpp
			let comp = Comp::ALL[(idx + hash as usize) % 3];
			match common::slpp_write(skip, comp) {
				Ok(arch) => match common::slpp_read(&arch, false) {
					Ok(g) => {
						if !common::same_start(&g.start, &full.start) || g.end != full.end || g.metadata != full.metadata || g.frames.id.len() != 0 {
							out.violate("skip-result-slpp-reread-differs", format!("{}: skip result written as .slpp re-reads differently", desc), Some(&bytes));
						} else {
							out.count("skip_result_slpp_roundtrips", 1);
						}
					}
					Err(f) => out.violate(format!("skip-result-slpp-reread-failed;{}", f.sig()), format!("{}: skip result written as .slpp (comp={}) cannot be re-read: {}", desc, comp.name(), f.text()), Some(&bytes)),
				},
				Err(f) => out.violate(format!("skip-result-slpp-write-failed;{}", f.sig()), format!("{}: skip result cannot be written as .slpp: {}", desc, f.text()), Some(&bytes)),
			}
			// the .slpp reader's own skip option
			let (fs, fe, fm, fh, fg_none) = (full.start.clone(), full.end.clone(), full.metadata.clone(), full.hash.clone(), full.gecko_codes.is_none());
			let fgecko = full.gecko_codes.as_ref().map(|g| (g.bytes.clone(), g.actual_size));
			if let Ok(arch) = common::slpp_write(full, comp) {
				match common::slpp_read(&arch, true) {
					Ok(g) => {
						let gg = g.gecko_codes.as_ref().map(|g| (g.bytes.clone(), g.actual_size));
						if !common::same_start(&g.start, &fs) || g.end != fe || g.metadata != fm || g.hash != fh || g.frames.id.len() != 0 || gg != fgecko || g.gecko_codes.is_none() != fg_none {
							out.violate("slpp-skip-differs", format!("{}: peppi::read with skip_frames differs from the full game (comp={})", desc, comp.name()), Some(&bytes));
						} else {
							out.count("slpp_skip_reads", 1);
						}
					}
					Err(f) => out.violate(format!("slpp-skip-read-failed;{}", f.sig()), format!("{}: peppi::read with skip_frames failed: {}", desc, f.text()), Some(&bytes)),
				}
			}
		}
		if idx % 50 == 0 {
			out.sample = Some(json!({"case": idx, "input": desc, "observed": if out.violations.is_empty() { "skip == full on start/end/metadata/hash; 0 rows; result re-written and re-read in both formats" } else { "FAILED" }}));
		}
		out
	}
}
