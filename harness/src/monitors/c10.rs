//! C10: skip-frames parsing returns the same start, end and metadata as a full parse.

use super::c01::case_input;
use crate::common::{self, Comp, Space};
use crate::driver::{CaseOut, Ctx, Monitor, Tier};
use serde_json::json;

pub struct C10 {
	quick: Space,
	thorough: Space,
	fixtures: Vec<(String, Vec<u8>)>,
}

impl C10 {
	pub fn new() -> Self {
		let mut q = Space::new(false);
		q.n_random = 4000;
		let mut t = Space::new(true);
		t.n_random = 200000;
		C10 { quick: q, thorough: t, fixtures: common::fixtures() }
	}
}

impl Monitor for C10 {
	fn id(&self) -> &'static str {
		"C10"
	}
	fn rule(&self) -> String {
		"C01's replay space restricted to finished files (Game End present: single or doubled), all versions/layouts, gecko 0/1/3+ blocks, metadata/none, frame counts 0/1/many, x hash {off,on}; plus size-targeted replays (up to tens of thousands of frames) whose skipped region is an exact multiple of 4 KiB / 8 KiB / 64 KiB, or one frame off; plus finished replays of versions above 3.16 whose events (Game End included) carry extra trailing bytes. For every third file the stream handed to the reader is positioned behind a junk prefix (not at offset 0). Oracle: slippi::read with skip_frames returns start, end, metadata equal to the full read and zero frame rows; the skip result can be written as .slp and re-read to the same start/end/metadata, and written as .slpp and re-read; peppi::read with skip_frames on the .slpp of the full game returns the same start/end/metadata/gecko/hash and zero rows. One evaluation = one (file, hash) pair. distinct = workload classes x hash.".into()
	}
	fn assumptions(&self) -> Vec<String> {
		vec![".slpp legs are skipped (counted) for versions 3.0-3.6 / empty port sets, where peppi::write panics (known finding under C02/C14)".into()]
	}
	fn n_cases(&self, ctx: &Ctx) -> usize {
		self.fixtures.len() + ctx.tier.pick(&self.quick, &self.thorough).len() + ctx.tier.pick(8, 48) + ctx.tier.pick(60, 2000)
	}
	fn min_classes(&self, tier: Tier) -> usize {
		tier.pick(80, 150)
	}
	fn run(&self, ctx: &Ctx, idx: usize) -> CaseOut {
		let mut out = CaseOut::default();
		let n_main = self.fixtures.len() + ctx.tier.pick(&self.quick, &self.thorough).len();
		let n_aligned = ctx.tier.pick(8, 48);
		let input = if idx >= n_main + n_aligned {
			newer_version_case(idx - n_main - n_aligned, ctx.seed, &mut out)
		} else if idx >= n_main {
			aligned_case(idx - n_main, ctx.seed, &mut out)
		} else {
			case_input(ctx.tier.pick(&self.quick, &self.thorough), &self.fixtures, ctx.seed, idx, &mut out)
		};
		let Some((desc, bytes, truth)) = input else { return out };
		if truth.ends.is_empty() {
			// not a finished replay: outside C10 (skip mode must refuse or fail; C06/C07)
			out.classes.clear();
			return out;
		}
		let base: Vec<String> = out.classes.iter().cloned().collect();
		out.classes.clear();
		let slpp_ok = super::c14::empty_struct_class(truth.v(), crate::view::occupied_chars(&truth.start).iter().filter(|c| !c.1).count()) == "other";
		for hash in [false, true] {
			out.evals += 1;
			for c in &base {
				out.class(format!("{} hash={}", c, hash));
			}
			let full = match common::slp_read(&bytes, false, hash) {
				Ok(g) => g,
				Err(f) => {
					out.violate(format!("full-read-failed;{}", f.sig()), format!("{}: {}", desc, f.text()), Some(&bytes));
					return out;
				}
			};
			// every third case: the replay sits behind a junk prefix and the stream is positioned
			// after it, i.e. the reader is not at offset 0 when the library gets it
			let skip_read = if idx % 3 == 0 {
				let n = 1 + (idx % 977);
				common::slp_read_src(crate::iofault::Src::of(&bytes).with_prefix(n), true, hash)
			} else {
				common::slp_read(&bytes, true, hash)
			};
			let skip = match skip_read {
				Ok(g) => g,
				Err(f) => {
					out.violate(format!("skip-read-failed;{}", f.sig()), format!("{}: skip-frames read of a finished replay failed: {}", desc, f.text()), Some(&bytes));
					continue;
				}
			};
			let mut diffs = vec![];
			if !common::same_start(&skip.start, &full.start) {
				diffs.push("start");
			}
			if skip.end != full.end {
				diffs.push("end");
			}
			if skip.metadata != full.metadata {
				diffs.push("metadata");
			}
			// hash equality across skip on/off is C11's statement; quirks are not part of C10's
			if skip.hash != full.hash {
				out.count("hash_differs_between_skip_and_full(see C11)", 1);
			}
			if skip.frames.id.len() != 0 {
				diffs.push("frames-not-empty");
			}
			if !diffs.is_empty() {
				out.violate(format!("skip-differs;{}", diffs.join("+")), format!("{} (hash={}): skip-frames result differs from full parse in: {}", desc, hash, diffs.join(", ")), Some(&bytes));
			}
			if (truth.version.0, truth.version.1, truth.version.2) > (3, 16, 0) {
				// versions above the maximum are refused by both writers by design (C09)
				out.count("write_legs_skipped_version_above_max", 1);
				continue;
			}
			// the skip result can be written out and re-read (.slp)
			match common::slp_write(&skip) {
				Ok(w) => match common::slp_read(&w, false, false) {
					Ok(g) => {
						if !common::same_start(&g.start, &full.start) || g.end != full.end || g.metadata != full.metadata || g.frames.id.len() != 0 {
							out.violate("skip-result-slp-reread-differs", format!("{}: skip result written as .slp re-reads differently", desc), Some(&bytes));
						} else {
							out.count("skip_result_slp_roundtrips", 1);
						}
					}
					Err(f) => out.violate(format!("skip-result-slp-reread-failed;{}", f.sig()), format!("{}: skip result written as .slp cannot be re-read: {}", desc, f.text()), Some(&bytes)),
				},
				Err(f) => out.violate(format!("skip-result-slp-write-failed;{}", f.sig()), format!("{}: skip result cannot be written as .slp: {}", desc, f.text()), Some(&bytes)),
			}
			if !slpp_ok {
				out.count("slpp_legs_skipped_known_finding", 1);
				continue;
			}
			// ... and as .slpp
			let comp = Comp::ALL[(idx + hash as usize) % 3];
			match common::slpp_write(skip, comp) {
				Ok(arch) => match common::slpp_read(&arch, false) {
					Ok(g) => {
						if !common::same_start(&g.start, &full.start) || g.end != full.end || g.metadata != full.metadata || g.frames.id.len() != 0 {
							out.violate("skip-result-slpp-reread-differs", format!("{}: skip result written as .slpp re-reads differently", desc), Some(&bytes));
						} else {
							out.count("skip_result_slpp_roundtrips", 1);
						}
					}
					Err(f) => out.violate(format!("skip-result-slpp-reread-failed;{}", f.sig()), format!("{}: skip result written as .slpp (comp={}) cannot be re-read: {}", desc, comp.name(), f.text()), Some(&bytes)),
				},
				Err(f) => out.violate(format!("skip-result-slpp-write-failed;{}", f.sig()), format!("{}: skip result cannot be written as .slpp: {}", desc, f.text()), Some(&bytes)),
			}
			// the .slpp reader's own skip option
			let (fs, fe, fm, fh, fg_none) = (full.start.clone(), full.end.clone(), full.metadata.clone(), full.hash.clone(), full.gecko_codes.is_none());
			let fgecko = full.gecko_codes.as_ref().map(|g| (g.bytes.clone(), g.actual_size));
			if let Ok(arch) = common::slpp_write(full, comp) {
				match common::slpp_read(&arch, true) {
					Ok(g) => {
						let gg = g.gecko_codes.as_ref().map(|g| (g.bytes.clone(), g.actual_size));
						if !common::same_start(&g.start, &fs) || g.end != fe || g.metadata != fm || g.hash != fh || g.frames.id.len() != 0 || gg != fgecko || g.gecko_codes.is_none() != fg_none {
							out.violate("slpp-skip-differs", format!("{}: peppi::read with skip_frames differs from the full game (comp={})", desc, comp.name()), Some(&bytes));
						} else {
							out.count("slpp_skip_reads", 1);
						}
					}
					Err(f) => out.violate(format!("slpp-skip-read-failed;{}", f.sig()), format!("{}: peppi::read with skip_frames failed: {}", desc, f.text()), Some(&bytes)),
				}
			}
		}
		if idx % 50 == 0 {
			out.sample = Some(json!({"case": idx, "input": desc, "observed": if out.violations.is_empty() { "skip == full on start/end/metadata/hash; 0 rows; result re-written and re-read in both formats" } else { "FAILED" }}));
		}
		out
	}
}

/// Finished replays whose skipped region (everything between Game Start and the
/// final Game End) is an exact multiple of a buffer-sized block (4 KiB, 8 KiB,
/// 64 KiB) or one frame more / less: sizes at which chunked skipping code changes
/// behaviour. Found by solving n * frame_bytes + gecko_bytes = 0 (mod block).
fn aligned_case(k: usize, seed: u64, out: &mut CaseOut) -> Option<(String, Vec<u8>, crate::model::Model)> {
	use crate::spec::{self, Kind};
	let mut rng = crate::rng::Rng::derive(seed, 0xA11 + k as u64);
	let blocks = [4096usize, 8192, 65536, 8192, 65536, 4096];
	let block = blocks[k % blocks.len()];
	let vers = [(1u8, 0u8), (3, 16), (2, 0), (0, 1), (3, 7), (2, 2), (3, 12), (1, 3)];
	let v = vers[(k / 2) % vers.len()];
	let ports: Vec<(u8, bool)> = if k % 3 == 0 { vec![(0, false), (1, false)] } else if k % 3 == 1 { vec![(0, true), (2, false)] } else { vec![(1, false)] };
	let nchars: usize = ports.iter().map(|(_, i)| 1 + *i as usize).sum();
	let mut frame_bytes = nchars * (1 + Kind::Pre.payload_size(v) + 1 + Kind::Post.payload_size(v));
	if Kind::FStart.exists(v) {
		frame_bytes += 1 + Kind::FStart.payload_size(v);
	}
	if Kind::FEnd.exists(v) {
		frame_bytes += 1 + Kind::FEnd.payload_size(v);
	}
	let gecko_blocks = if spec::gte(v, (3, 3)) { k % 3 } else { 0 };
	let gecko_bytes = gecko_blocks * 517;
	// smallest n >= 1 with (n * frame_bytes + gecko_bytes) % block == 0
	let mut n = None;
	for cand in 1..=70_000usize {
		if (cand * frame_bytes + gecko_bytes) % block == 0 {
			n = Some(cand);
			break;
		}
	}
	let Some(n0) = n else {
		out.observe("aligned_cases_without_solution", format!("v{}.{} frame_bytes={} gecko={} block={}", v.0, v.1, frame_bytes, gecko_bytes, block));
		return None;
	};
	// exact multiple, or one frame off
	let n = match k % 4 {
		3 => n0 + 1,
		_ => n0,
	};
	let mut s = crate::gen::base_spec((v.0, v.1, 0), ports, n);
	for f in s.frames.iter_mut() {
		f.items = 0;
	}
	s.gecko_blocks = gecko_blocks;
	s.gecko_tail = if gecko_blocks > 0 { 11 } else { 0 };
	s.ends = 1;
	s.metadata = if k % 2 == 0 { Some(crate::gen::gen_meta(&mut rng, 1, 2)) } else { None };
	let b = crate::gen::build(&s, &mut rng);
	let skipped = n * frame_bytes + gecko_bytes;
	out.class(format!("aligned|block={}|{}|v{}.{}", block, if skipped % block == 0 { "exact-multiple" } else { "one-frame-off" }, v.0, v.1));
	Some((format!("{} [skipped region {} bytes = {} x {} + {}]", s.describe(), skipped, skipped / block, block, skipped % block), b.bytes, b.truth))
}

/// Finished replays of versions above 3.16 whose known events (Game End included)
/// carry extra trailing bytes: skip-frames must find the Game End through the
/// payload table, not through the size the library knows for its newest version.
fn newer_version_case(k: usize, seed: u64, out: &mut CaseOut) -> Option<(String, Vec<u8>, crate::model::Model)> {
	let mut rng = crate::rng::Rng::derive(seed, 0x0E3 + k as u64);
	let ver = *rng.pick(&[(3u8, 17u8, 0u8), (3, 200, 1), (4, 0, 0), (9, 1, 0), (255, 255, 255)]);
	let ports = vec![(0, k % 3 == 0), (1, false)];
	let nchars = 2 + (k % 3 == 0) as usize;
	let mut s = crate::gen::base_spec(ver, ports, 0);
	let nf = rng.range(0, 6);
	s.frames = crate::gen::gen_frames(&mut rng, (ver.0, ver.1), nchars, nf, true, 1, 2);
	s.ends = 1 + (k % 5 == 0) as usize;
	s.metadata = if k % 2 == 0 { Some(crate::gen::gen_meta(&mut rng, 1, 2)) } else { None };
	s.gecko_blocks = k % 3;
	s.gecko_tail = if s.gecko_blocks > 0 { 5 } else { 0 };
	let ex = |rng: &mut crate::rng::Rng| *rng.pick(&[0usize, 1, 2, 4, 9, 100]);
	s.extra = crate::gen::Extra { start: ex(&mut rng), pre: ex(&mut rng), post: ex(&mut rng), end: 1 + ex(&mut rng), fstart: ex(&mut rng), item: ex(&mut rng), fend: ex(&mut rng) };
	let b = crate::gen::build(&s, &mut rng);
	out.class(format!("newer-version|v{}.{}|end+{}", ver.0, ver.1, s.extra.end.min(10)));
	Some((format!("{} extra={:?}", s.describe(), s.extra), b.bytes, b.truth))
}
