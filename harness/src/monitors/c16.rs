//! C16: metadata trees are read, written and stored with order and bytes preserved.

use crate::common::{self, Comp};
use crate::driver::{CaseOut, Ctx, Monitor, Tier};
use crate::model::{MVal, Meta};
use crate::rng::Rng;
use crate::{gen, jsonord, tarx};
use serde_json::json;

pub struct C16;

fn meta_of(m: &serde_json::Map<String, serde_json::Value>) -> Result<Meta, String> {
	let mut out = vec![];
	for (k, v) in m.iter() {
		let mv = match v {
			serde_json::Value::String(s) => MVal::Str(s.clone()),
			serde_json::Value::Number(n) => MVal::Int(n.as_i64().and_then(|x| i32::try_from(x).ok()).ok_or(format!("number {} is not an i32", n))?),
			serde_json::Value::Object(o) => MVal::Map(meta_of(o)?),
			other => return Err(format!("unexpected value {:?}", other)),
		};
		out.push((k.clone(), mv));
	}
	Ok(out)
}

fn depth(m: &Meta) -> usize {
	1 + m.iter().map(|(_, v)| if let MVal::Map(mm) = v { depth(mm) } else { 0 }).max().unwrap_or(0)
}

fn count(m: &Meta) -> usize {
	m.iter().map(|(_, v)| 1 + if let MVal::Map(mm) = v { count(mm) } else { 0 }).sum()
}

fn chain(rng: &mut Rng, d: usize) -> Meta {
	// a chain of nested maps `d` levels deep (top level = 1) with a few leaves
	let mut m: Meta = vec![("leaf".into(), MVal::Int(rng.next() as i32))];
	for i in 1..d {
		let mut outer: Meta = vec![];
		if rng.chance(1, 3) {
			outer.push((format!("s{}", i), MVal::Str(gen::gen_utf8(rng, 6))));
		}
		outer.push((format!("k{}", i % 7), MVal::Map(m)));
		if rng.chance(1, 3) {
			outer.push((format!("z{}", i), MVal::Int(-(i as i32))));
		}
		m = outer;
	}
	m
}

fn shape(rng: &mut Rng, idx: usize) -> (String, Option<Meta>) {
	match idx % 13 {
		0 => ("absent".into(), None),
		1 => ("empty-map".into(), Some(vec![])),
		2 => {
			let d = *rng.pick(&[2usize, 10, 50, 100, 120, 126, 127]);
			(format!("chain-depth-{}", d), Some(chain(rng, d)))
		}
		3 => ("wide".into(), Some((0..rng.range(20, 60)).map(|i| (format!("{:03}-{}", (i * 7919) % 1000, i), if i % 2 == 0 { MVal::Int(rng.next() as i32) } else { MVal::Str(gen::gen_utf8(rng, 12)) })).collect())),
		4 => ("reverse-sorted-keys".into(), Some((0..rng.range(2, 12)).rev().map(|i| (format!("key{:02}", i), MVal::Int(i as i32))).collect())),
		5 => ("long-strings".into(), Some(vec![("".into(), MVal::Str(gen::gen_utf8(rng, 255))), (gen::gen_utf8(rng, 255), MVal::Str(String::new())), ("x".repeat(255), MVal::Str("y".repeat(255)))])),
		6 => ("int-extremes".into(), Some([i32::MIN, -1, 0, 1, i32::MAX, 255, 256, 65535, 65536, -128, -129, 0x7b55_537d].iter().enumerate().map(|(i, v)| (format!("i{}", i), MVal::Int(*v))).collect())),
		7 => ("realistic".into(), Some(vec![
			("startAt".into(), MVal::Str("2020-08-01T19:23:45Z".into())),
			("lastFrame".into(), MVal::Int(11238)),
			("players".into(), MVal::Map(vec![("1".into(), MVal::Map(vec![("characters".into(), MVal::Map(vec![("18".into(), MVal::Int(5209))])), ("names".into(), MVal::Map(vec![("netplay".into(), MVal::Str("abc".into())), ("code".into(), MVal::Str("ABC#123".into()))]))])), ("0".into(), MVal::Map(vec![("characters".into(), MVal::Map(vec![("1".into(), MVal::Int(5209))]))]))])),
			("playedOn".into(), MVal::Str("dolphin".into())),
		])),
		8 => ("json-hostile-strings".into(), Some(vec![("quote\"back\\slash".into(), MVal::Str("line\nbreak\ttab\u{1}\u{7f}".into())), ("\u{2028}\u{ffff}".into(), MVal::Str("😀\u{10ffff}é".into())), ("}U{S".into(), MVal::Str("}}U\u{8}metadata{".into()))])),
		9 => {
			// many maps in total (siblings, not depth): more maps than any depth limit
			let n = *rng.pick(&[128usize, 130, 200, 400]);
			("many-sibling-maps".into(), Some((0..n).map(|i| (format!("m{}", i), MVal::Map(if i % 3 == 0 { vec![] } else { vec![("a".into(), MVal::Map(vec![("b".into(), MVal::Int(i as i32))]))] }))).collect()))
		}
		12 => {
			// the keys real recorders write, with values nobody expects under them: code that gives a
			// known key a meaning (a timestamp, a frame count, a nickname) must not choke on them
			fn odd(rng: &mut Rng) -> MVal {
				match rng.below(8) {
					0 => MVal::Str(rng.pick(&["２０２０-08-16T07:02:53Z", "2020年8月16日 午前7時2分53秒", "2020-08-16T07:02:53", "9999-99-99T99:99:99Z", "0000-00-00T00:00:00+00:00", "2020-08-16T07:02:53é", "\u{feff}2020-08-16T07:02:53Z", "-020-08-16T07:02:53Z"]).to_string()),
					1 => {
						let n = *rng.pick(&[0usize, 1, 18, 19, 20, 40, 255]);
						MVal::Str(gen::gen_utf8(rng, n))
					}
					2 => MVal::Int(*rng.pick(&[0i32, -1, i32::MIN, i32::MAX, 11238, -124])),
					3 => MVal::Map(vec![]),
					4 => MVal::Map(vec![("0".into(), MVal::Str(gen::gen_utf8(rng, 10)))]),
					5 => MVal::Str(String::new()),
					6 => MVal::Str("x".repeat(255)),
					_ => MVal::Str("2020-08-01T19:23:45Z".into()),
				}
			}
			let mut m: Meta = vec![];
			for k in ["startAt", "lastFrame", "playedOn", "consoleNick", "players"] {
				if rng.chance(4, 5) {
					m.push((k.to_string(), odd(rng)));
				}
			}
			if rng.chance(1, 2) {
				let names: Meta = ["netplay", "code"].iter().map(|k| (k.to_string(), odd(rng))).collect();
				let player: Meta = vec![("characters".into(), odd(rng)), ("names".into(), MVal::Map(names))];
				m.retain(|(k, _)| k != "players");
				m.push(("players".into(), MVal::Map(vec![(rng.below(4).to_string(), MVal::Map(player))])));
			}
			// key order as drawn: rotate so that every key is first sometimes
			let r = rng.below(m.len().max(1));
			m.rotate_left(r);
			("real-keys-odd-values".into(), Some(m))
		}
		_ => ("random-tree".into(), Some(gen::gen_meta(rng, 4, 5))),
	}
}

impl Monitor for C16 {
	fn id(&self) -> &'static str {
		"C16"
	}
	fn rule(&self) -> String {
		"metadata trees over {string <= 255 bytes of UTF-8, int32, map} are generated (absent, empty, nesting chains 2..127 deep, wide maps, hundreds of sibling sub-maps, reverse-sorted and shuffled keys, 255-byte keys/strings, empty key/string, int32 extremes, JSON-hostile and multi-byte strings, realistic Slippi shapes, random trees) and encoded with the harness's own UBJSON encoder into replays of several versions. Oracle: (1) game.metadata iterates to the same ordered tree; (2) slippi::write reproduces the file; (3) metadata.json inside the .slpp (extracted with an independent tar reader, parsed with an order-aware JSON parser) is the same ordered tree, or null when absent; (4) the game read back from .slpp (through whole / 3-byte / 8192-byte / random short reads) has the same ordered tree and serialises to the original bytes; (5) no metadata is reported as None before and after the .slpp trip. One evaluation = one tree. distinct = shape x depth x size classes.".into()
	}
	fn assumptions(&self) -> Vec<String> {
		vec!["the harness does not enable serde_json/preserve_order; serde_json::Map iteration order is whatever peppi's build gives it".into(), "nesting is bounded by 127 (serde_json's recursion limit, which .slpp imposes)".into()]
	}
	fn n_cases(&self, ctx: &Ctx) -> usize {
		ctx.tier.pick(6000, 120000)
	}
	fn min_classes(&self, _tier: Tier) -> usize {
		20
	}
	fn run(&self, ctx: &Ctx, idx: usize) -> CaseOut {
		let mut out = CaseOut::default();
		let mut rng = Rng::derive(ctx.seed, 0xC16 ^ (idx as u64) << 8);
		let (sname, tree) = shape(&mut rng, idx);
		let ver = *rng.pick(&[(0u8, 1u8, 0u8), (1, 0, 0), (2, 0, 1), (2, 2, 0), (3, 7, 0), (3, 16, 0)]);
		let mut spec = gen::base_spec(ver, vec![(0, false), (1, false)], rng.range(0, 3));
		spec.metadata = tree.clone();
		spec.ends = *rng.pick(&[0usize, 1, 2]);
		let built = gen::build(&spec, &mut rng);
		let bytes = built.bytes;
		out.evals = 1;
		let d = tree.as_ref().map_or(0, depth);
		let n = tree.as_ref().map_or(0, count);
		out.class(format!("{}|depth={}|size={}", sname, match d { 0 => "0", 1 => "1", 2..=9 => "2-9", 10..=99 => "10-99", _ => "100-127" }, match n { 0 => "0", 1..=9 => "1-9", 10..=99 => "10-99", _ => "100+" }));
		let desc = format!("tree shape {} depth {} entries {} in a v{}.{} replay", sname, d, n, ver.0, ver.1);
		let game = match common::slp_read(&bytes, false, false) {
			Ok(g) => g,
			Err(f) => {
				out.violate(format!("read-failed;{}", f.sig()), format!("{}: {}", desc, f.text()), Some(&bytes));
				return out;
			}
		};
		// (1)
		let got = match &game.metadata {
			None => None,
			Some(m) => match meta_of(m) {
				Ok(t) => Some(t),
				Err(e) => {
					out.violate("metadata-value-kind", format!("{}: {}", desc, e), Some(&bytes));
					return out;
				}
			},
		};
		if got != tree {
			let kind = match (&got, &tree) {
				(None, Some(_)) | (Some(_), None) => "presence",
				(Some(a), Some(b)) => {
					let mut a2 = a.clone();
					let mut b2 = b.clone();
					sort_rec(&mut a2);
					sort_rec(&mut b2);
					if a2 == b2 {
						"key-order"
					} else {
						"content"
					}
				}
				_ => "other",
			};
			out.violate(format!("read-tree-differs;{}", kind), format!("{}: metadata read differs from the generated tree ({})", desc, kind), Some(&bytes));
		}
		// (2)
		match common::slp_write(&game) {
			Ok(w) if w == bytes => out.count("bytes_reproduced", 1),
			Ok(w) => out.violate("written-bytes-differ", format!("{}: {}", desc, common::first_diff(&bytes, &w)), Some(&bytes)),
			Err(f) => out.violate(format!("write-failed;{}", f.sig()), format!("{}: {}", desc, f.text()), Some(&bytes)),
		}
		// (3) + (4)
		let comp = Comp::ALL[idx % 3];
		match common::slpp_write(game, comp) {
			Ok(arch) => {
				match tarx::read(&arch) {
					Ok((entries, _)) => match entries.iter().find(|e| e.name == "metadata.json") {
						Some(e) => match jsonord::parse(&e.data) {
							Ok(j) => {
								let want = tree.as_ref().map_or(jsonord::J::Null, jsonord::from_meta);
								if j != want {
									out.violate("metadata-json-differs", format!("{}: metadata.json in .slpp is not the same ordered tree (got {} bytes: {})", desc, e.data.len(), String::from_utf8_lossy(&e.data).chars().take(120).collect::<String>()), Some(&bytes));
								} else {
									out.count("metadata_json_matches", 1);
								}
							}
							Err(er) => out.violate("metadata-json-invalid", format!("{}: metadata.json is not valid JSON: {}", desc, er), Some(&bytes)),
						},
						None => out.violate("metadata-json-missing", format!("{}: no metadata.json entry", desc), Some(&bytes)),
					},
					Err(e) => out.violate("slpp-not-a-tar", format!("{}: {}", desc, e), Some(&bytes)),
				}
				let sched = match idx % 4 {
					0 => crate::iofault::Policy::Whole,
					1 => crate::iofault::Policy::Fixed(3),
					2 => crate::iofault::Policy::Fixed(8192),
					_ => crate::iofault::Policy::Random(700, idx as u64),
				};
				match common::slpp_read_src(crate::iofault::Src::new(std::sync::Arc::new(arch.clone()), sched), false) {
					Ok(g2) => {
						let got2 = g2.metadata.as_ref().map(meta_of).transpose().unwrap_or(None);
						if got2 != tree {
							out.violate("slpp-trip-tree-differs", format!("{}: metadata after the .slpp trip differs (order/content/presence)", desc), Some(&bytes));
						}
						match common::slp_write(&g2) {
							Ok(w) if w == bytes => out.count("slpp_trip_bytes_reproduced", 1),
							Ok(w) => out.violate("slpp-trip-bytes-differ", format!("{}: {}", desc, common::first_diff(&bytes, &w)), Some(&bytes)),
							Err(f) => out.violate(format!("slpp-trip-write-failed;{}", f.sig()), format!("{}: {}", desc, f.text()), Some(&bytes)),
						}
					}
					Err(f) => out.violate(format!("slpp-read-failed;{}", f.sig()), format!("{}: {}", desc, f.text()), Some(&bytes)),
				}
			}
			Err(f) => out.violate(format!("slpp-write-failed;{}", f.sig()), format!("{}: {}", desc, f.text()), Some(&bytes)),
		}
		if idx % 40 == 0 {
			out.sample = Some(json!({"case": idx, "tree": desc, "top_level_keys": tree.as_ref().map(|t| t.iter().take(5).map(|(k, _)| k.chars().take(20).collect::<String>()).collect::<Vec<_>>())}));
		}
		out
	}
}

fn sort_rec(m: &mut Meta) {
	for (_, v) in m.iter_mut() {
		if let MVal::Map(mm) = v {
			sort_rec(mm);
		}
	}
	m.sort_by(|a, b| a.0.cmp(&b.0));
}
