//! C19: name fields decode as Shift-JIS up to the first NUL; normalisation is exact.

use crate::common;
use crate::driver::{guard, CaseOut, Ctx, Monitor, Tier};
use crate::rng::Rng;
use crate::sjis::{normalize_char, Sjis};
use crate::{gen, spec};
use peppi::game::shift_jis::MeleeString;
use serde_json::json;

pub struct C19 {
	sjis: Sjis,
	base: Vec<u8>,
	start_at: usize,
}

impl C19 {
	pub fn new() -> Self {
		// a v3.16 replay whose four ports are occupied; name fields are patched in place
		let mut rng = Rng::derive(19, 19);
		let mut s = gen::base_spec((3, 16, 0), vec![(0, false), (1, false), (2, false), (3, false)], 1);
		s.rich_start = false;
		let b = gen::build(&s, &mut rng);
		let start_at = b.truth.events[0].1 + 1;
		C19 { sjis: Sjis::load(), base: b.bytes, start_at }
	}
}

const WIDTHS: [(usize, &str); 3] = [(16, "name_tag"), (31, "netplay.name"), (10, "netplay.code")];

fn try_from(field: &[u8]) -> Result<Option<String>, String> {
	match guard(|| MeleeString::try_from(field)) {
		Ok(Ok(m)) => Ok(Some(m.0)),
		Ok(Err(_)) => Ok(None),
		Err(p) => Err(format!("panic at {}: {}", p.loc, p.msg)),
	}
}

impl C19 {
	fn check_field(&self, out: &mut CaseOut, field: &[u8], what: &str) {
		out.evals += 1;
		let want = self.sjis.decode_field(field);
		match try_from(field) {
			Ok(got) => {
				if got != want {
					let kind = match (&got, &want) {
						(Some(_), None) => "invalid-sequence-accepted",
						(None, Some(_)) => "valid-sequence-rejected",
						_ => "decoded-text-differs",
					};
					out.violate(format!("try_from;{}", kind), format!("{}: field {:02x?} decodes to {:?}, reference says {:?}", what, field, got, want), None);
				} else if want.is_some() {
					out.count("decoded_equal", 1);
				} else {
					out.count("rejected_equal", 1);
				}
				if let Some(g) = &got {
					if g.contains('\u{fffd}') {
						out.violate("replacement-character", format!("{}: field {:02x?} yields U+FFFD", what, field), None);
					}
				}
			}
			Err(e) => out.violate("try_from;panic", format!("{}: field {:02x?}: {}", what, field, e), None),
		}
	}

	/// Patch a name field of an occupied port into the base replay and read it.
	fn check_in_file(&self, out: &mut CaseOut, which: usize, port: usize, field: &[u8]) {
		out.evals += 1;
		let (w, name) = WIDTHS[which];
		let off = self.start_at
			+ match which {
				0 => spec::start::NAME_TAG + 16 * port,
				1 => spec::start::DISPLAY_NAME + 31 * port,
				_ => spec::start::CONNECT_CODE + 10 * port,
			};
		let mut b = self.base.clone();
		b[off..off + w].copy_from_slice(field);
		let want = self.sjis.decode_field(field);
		match common::slp_read(&b, false, false) {
			Ok(g) => {
				let p = g.start.players.iter().find(|p| p.port as usize == port);
				let got = p.and_then(|p| match which {
					0 => p.name_tag.as_ref().map(|m| m.0.clone()),
					1 => p.netplay.as_ref().map(|n| n.name.0.clone()),
					_ => p.netplay.as_ref().map(|n| n.code.0.clone()),
				});
				match (&got, &want) {
					(Some(g), Some(w)) if g == w => out.count("file_decoded_equal", 1),
					(_, None) => out.violate(format!("file;invalid-sequence-accepted;{}", name), format!("{} of port {} = {:02x?}: read succeeded with {:?} although the sequence is invalid", name, port, field, got), Some(&b)),
					_ => out.violate(format!("file;decoded-text-differs;{}", name), format!("{} of port {} = {:02x?}: read gives {:?}, reference {:?}", name, port, field, got, want), Some(&b)),
				}
			}
			Err(common::Fail::Err(_)) => {
				if want.is_some() {
					out.violate(format!("file;valid-sequence-rejected;{}", name), format!("{} of port {} = {:02x?}: read failed although the reference decodes it to {:?}", name, port, field, want), Some(&b));
				} else {
					out.count("file_rejected_equal", 1);
				}
			}
			Err(f) => out.violate(format!("file;panic;{}", name), format!("{} of port {} = {:02x?}: {}", name, port, field, f.text()), Some(&b)),
		}
	}
}

impl Monitor for C19 {
	fn id(&self) -> &'static str {
		"C19"
	}
	fn rule(&self) -> String {
		"decoding: ALL 256 one-byte and ALL 65536 two-byte sequences, each placed in 16/31/10-byte fields at the start (NUL-terminated, random garbage after the NUL), in the middle after ASCII text, and flush against the end of a full field with no NUL (so a lead byte may be cut by the field end), through MeleeString::try_from; and patched into the name tag / netplay name / connect code of an occupied port of a complete v3.16 replay read with slippi::read (quick: one field x port per sequence, rotating; thorough: all three fields). Plus random valid/invalid multi-character fields (one third made of single-byte half-width katakana, fields filled to the last byte without NUL) through try_from AND through complete files; every 3-byte prefix over 24 boundary bytes (13,824 prefixes) followed by ASCII text; NUL at every position of every width with random valid text before and garbage after (garbage must not influence the result), and random multi-character valid/invalid strings. Reference: committed CPython cp932 table with the single bytes A0/FD/FE/FF as errors; an invalid sequence must yield Err, never U+FFFD. Normalisation: every Unicode scalar value (all 1,112,064) and random strings against the five-rule map, plus idempotence. distinct = (route, lead-byte class, outcome) classes.".into()
	}
	fn assumptions(&self) -> Vec<String> {
		vec!["reference table = CPython cp932 (tools/gen_cp932.py) with WHATWG's treatment of A0/FD/FE/FF; measured to agree with the pinned encoding_rs on every 1- and 2-byte sequence".into()]
	}
	fn exhaustive(&self, _tier: Tier) -> bool {
		true
	}
	fn n_cases(&self, _ctx: &Ctx) -> usize {
		256 + 17 + 32
	}
	fn min_classes(&self, _tier: Tier) -> usize {
		20
	}
	fn run(&self, ctx: &Ctx, idx: usize) -> CaseOut {
		let mut out = CaseOut::default();
		let mut rng = Rng::derive(ctx.seed, 0xC19 ^ idx as u64);
		if idx < 256 {
			let lead = idx as u8;
			let lc = match lead {
				0 => "nul",
				1..=0x7f => "ascii",
				0x80 | 0xA0 | 0xFD..=0xFF => "special-single",
				0x81..=0x9F | 0xE0..=0xFC => "lead",
				_ => "halfwidth-katakana",
			};
			// one-byte sequence
			for (w, name) in WIDTHS {
				let mut f = vec![lead, 0];
				f.extend(rng.bytes(w - 2));
				self.check_field(&mut out, &f, name);
				let mut f = vec![b'A'; w];
				f[w - 1] = lead;
				self.check_field(&mut out, &f, name);
			}
			for trail in 0..=255u8 {
				for (wi, (w, name)) in WIDTHS.iter().enumerate() {
					// start, NUL-terminated, garbage tail
					let mut f = vec![lead, trail, 0];
					f.extend(rng.bytes(w - 3));
					self.check_field(&mut out, &f, name);
					// middle
					let mut f = vec![b'x', b'y', lead, trail, b'z', 0];
					f.extend(rng.bytes(w - 6));
					self.check_field(&mut out, &f, name);
					// flush against the end of a full field
					let mut f = vec![b'q'; *w];
					f[w - 2] = lead;
					f[w - 1] = trail;
					self.check_field(&mut out, &f, name);
					// cut by the field end: only the lead byte fits
					if trail == 0x40 {
						let mut f = vec![b'q'; *w];
						f[w - 1] = lead;
						self.check_field(&mut out, &f, name);
					}
					// through a complete file
					if ctx.tier == Tier::Thorough || (lead as usize + trail as usize) % 3 == wi {
						let mut f = vec![lead, trail, 0];
						f.extend(rng.bytes(w - 3));
						self.check_in_file(&mut out, wi, (trail as usize + wi) % 4, &f);
					}
				}
			}
			out.class(format!("decode|lead={}", lc));
			for (k, _) in out.counters.clone() {
				out.class(format!("decode|lead={}|{}", lc, k));
			}
			if idx % 37 == 0 {
				out.sample = Some(json!({"case": idx, "lead_byte": format!("{:#04x}", lead), "sequences": 257, "evaluations": out.evals, "outcomes": out.counters}));
			}
			return out;
		}
		if idx < 256 + 17 {
			// normalisation, one plane per case
			let plane = (idx - 256) as u32;
			let mut mapped = 0u64;
			for cp in plane * 0x10000..(plane + 1) * 0x10000 {
				let Some(c) = char::from_u32(cp) else { continue };
				out.evals += 1;
				let m = MeleeString(c.to_string());
				let n1 = m.to_normalized();
				let want: String = std::iter::once(normalize_char(c)).collect();
				if n1 != want {
					out.violate("normalize-char", format!("U+{:04X} normalises to {:?}, rules say {:?}", cp, n1, want), None);
				}
				let n2 = MeleeString(n1.clone()).to_normalized();
				if n2 != n1 {
					out.violate("normalize-not-idempotent", format!("U+{:04X}: {:?} -> {:?} -> {:?}", cp, c, n1, n2), None);
				}
				if want != c.to_string() {
					mapped += 1;
				}
				if out.violations.len() >= 4 {
					break;
				}
			}
			out.count("scalars_mapped_by_a_rule", mapped);
			out.class(format!("normalize|plane={}", plane));
			out.sample = Some(json!({"case": idx, "plane": plane, "scalars": out.evals, "mapped_by_rules": mapped}));
			return out;
		}
		// NUL positions + random strings
		let k = idx - 256 - 17;
		// every 3-byte prefix over a set of boundary bytes, followed by ASCII text
		const EDGE: [u8; 24] = [0x00, 0x20, 0x3F, 0x40, 0x41, 0x5C, 0x7E, 0x7F, 0x80, 0x81, 0x9F, 0xA0, 0xA1, 0xB1, 0xBB, 0xBF, 0xDF, 0xE0, 0xEF, 0xFB, 0xFC, 0xFD, 0xFE, 0xFF];
		for (ai, a) in EDGE.iter().enumerate() {
			if ai % 32 != k % 32 && ai + 24 != k {
				continue;
			}
			for b in EDGE {
				for c in EDGE {
					for (w, name) in WIDTHS {
						let mut f = vec![*a, b, c, b'M', b'A', b'N', b'G', b'0', 0];
						f.extend(rng.bytes(w - 9));
						self.check_field(&mut out, &f, name);
					}
				}
			}
			out.class(format!("prefix3|first={:#04x}", a));
		}
		for _ in 0..ctx.tier.pick(400, 20000) {
			let (w, name) = WIDTHS[rng.below(3)];
			// the completely filled field (no NUL at all) is the most interesting single position
			let nul_at = if rng.chance(1, 6) { w } else { rng.below(w + 1) };
			let kat_full = rng.chance(1, 2);
			let mut f = vec![];
			while f.len() < nul_at {
				// katakana-only text for a third of the positions and for half of the completely filled fields
				let kat = nul_at % 3 == 0 || (nul_at == w && kat_full);
				if kat && f.len() < nul_at {
					f.push(0xA1 + rng.below(0x3F) as u8);
					continue;
				}
				let atoms: &[&[u8]] = &[b"a", b"Z", b"7", b" ", &[0x82, 0xA0], &[0x83, 0x41], &[0x81, 0x40], &[0xB1], &[0x81, 0x66], &[0x81, 0x68], &[0x82, 0x60], &[0x88, 0x9F], &[0xDF], &[0x81], &[0xFD], &[0x82, 0x20], &[0xEB, 0x40], &[0x85, 0x9E]];
				let a = *rng.pick(atoms);
				if f.len() + a.len() > nul_at {
					f.push(b'-');
				} else {
					f.extend_from_slice(a);
				}
			}
			if nul_at < w {
				f.push(0);
			}
			// two different garbage tails must give the same result
			let mut f1 = f.clone();
			let mut f2 = f.clone();
			while f1.len() < w {
				f1.push(rng.byte());
				f2.push(rng.byte());
			}
			self.check_field(&mut out, &f1, name);
			// the same field through a complete replay (the file path may decode differently)
			let wi = WIDTHS.iter().position(|x| x.0 == w).unwrap_or(0);
			self.check_in_file(&mut out, wi, rng.below(4), &f1);
			let (r1, r2) = (try_from(&f1), try_from(&f2));
			if r1 != r2 {
				out.violate("bytes-after-nul-matter", format!("{}: {:02x?} vs {:02x?} (same bytes before the NUL at {}) decode to {:?} vs {:?}", name, f1, f2, nul_at, r1, r2), None);
			}
			out.class(format!("nul|width={}|nul_at={}", w, if nul_at == 0 { "0" } else if nul_at == w { "none" } else { "mid" }));
			// random multi-scalar normalisation
			let s: String = (0..rng.range(0, 12)).map(|_| *rng.pick(&['a', 'Ａ', '！', '～', '\u{3000}', '’', '”', '‘', '“', 'あ', '\u{ff00}', '\u{ff5f}', '\u{ff5e}', '\u{ff01}', '😀'])).collect();
			out.evals += 1;
			let n1 = MeleeString(s.clone()).to_normalized();
			let want: String = s.chars().map(normalize_char).collect();
			if n1 != want || MeleeString(n1.clone()).to_normalized() != n1 {
				out.violate("normalize-string", format!("{:?} normalises to {:?}, rules say {:?}", s, n1, want), None);
			}
		}
		if k == 0 {
			out.sample = Some(json!({"case": idx, "kind": "NUL at every position with garbage tails + random strings", "evaluations": out.evals}));
		}
		out
	}
}
