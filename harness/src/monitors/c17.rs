//! C17: serialising any accepted game gives a self-consistent file and a fixed point.

use crate::common;
use crate::driver::{CaseOut, Ctx, Monitor, Tier};
use crate::mutate;
use crate::rng::Rng;
use crate::{gen, model, spec, view};
use serde_json::json;

pub struct C17;

const KNOWN: [u8; 10] = [0x10, 0x35, 0x36, 0x37, 0x38, 0x39, 0x3A, 0x3B, 0x3C, 0x3D];

/// Permute the events of every frame, keeping Frame Start first, Frame End
/// last and each character's Pre before its Post.
fn permute_frames(events: &mut Vec<(u8, Vec<u8>)>, rng: &mut Rng, pre22: bool) -> usize {
	let mut permuted = 0;
	let mut i = 0;
	while i < events.len() {
		// a maximal run of Pre/Post/Item events with the same frame id
		if !matches!(events[i].0, 0x37 | 0x38 | 0x3B) {
			i += 1;
			continue;
		}
		let id = events[i].1[..4].to_vec();
		let mut j = i;
		while j < events.len() && matches!(events[j].0, 0x37 | 0x38 | 0x3B) && events[j].1[..4] == id[..] {
			j += 1;
		}
		if j - i >= 2 {
			let mut run: Vec<(u8, Vec<u8>)> = events[i..j].to_vec();
			// random topological order: repeatedly pick any event whose pre (if it is a post) is already out
			let mut outv: Vec<(u8, Vec<u8>)> = vec![];
			while !run.is_empty() {
				let ok: Vec<usize> = (0..run.len())
					.filter(|&k| {
						let (c, p) = &run[k];
						if *c != 0x38 {
							return true;
						}
						// post: its character's pre must not still be pending
						!run.iter().any(|(c2, p2)| *c2 == 0x37 && p2[4] == p[4] && p2[5] == p[5])
					})
					.collect();
				let k = *rng.pick(&ok);
				outv.push(run.remove(k));
			}
			let _ = pre22;
			if outv != events[i..j] {
				permuted += 1;
			}
			events.splice(i..j, outv);
		}
		i = j;
	}
	permuted
}

impl Monitor for C17 {
	fn id(&self) -> &'static str {
		"C17"
	}
	fn rule(&self) -> String {
		"well-formed replays (all layouts, random histories with absences/rollbacks/items/gecko) are made irregular by every combination of: unknown events (declared in the table) at random boundaries incl. inside frames; junk bytes after Game End inside the raw element (not a duplicate end); a random permutation of each frame's Pre/Post/Item events that keeps Frame Start first, Frame End last and each character's Pre before its Post; Game End removed; metadata removed. For every such file the reader accepts: the hash (when requested) is the XXH3-64 of exactly the consumed bytes, and w = write(read(y)) must (1) be parsed by the independent reference model with declared raw length == actual raw element length, (2) be readable, with start/end/metadata/gecko/every column/validity/item offsets equal to those of read(y), (3) satisfy write(read(w)) == w byte for byte. One evaluation = one irregular file. distinct = irregularity combination x regime classes.".into()
	}
	fn n_cases(&self, ctx: &Ctx) -> usize {
		ctx.tier.pick(16000, 400000)
	}
	fn min_classes(&self, _tier: Tier) -> usize {
		40
	}
	fn run(&self, ctx: &Ctx, idx: usize) -> CaseOut {
		let mut out = CaseOut::default();
		let mut rng = Rng::derive(ctx.seed, 0xC17 ^ (idx as u64) << 5);
		let layouts = spec::layout_versions();
		let v = layouts[idx % layouts.len()];
		let patch = if v == (3, 16) { 0 } else { rng.byte() };
		let mut s = gen::random_spec(&mut rng, (v.0, v.1, patch), ctx.tier.pick(8, 30));
		if s.ends == 2 {
			s.ends = 1;
		}
		let built = gen::build(&s, &mut rng);
		let mut p = mutate::split(&built.bytes, &built.truth);
		let combo = (idx / layouts.len()) % 32;
		let (unk, junk, perm, noend, nometa) = (combo & 1 != 0, combo & 2 != 0, combo & 4 != 0, combo & 8 != 0, combo & 16 != 0);
		let mut applied = vec![];
		if perm {
			let n = permute_frames(&mut p.events, &mut rng, !spec::gte(v, (2, 2)));
			if n > 0 {
				applied.push("permuted");
			}
		}
		if noend {
			let before = p.events.len();
			p.events.retain(|(c, _)| *c != 0x39);
			if p.events.len() != before {
				applied.push("no-end");
			}
		}
		if unk {
			let codes: Vec<u8> = (0..=255u8).filter(|c| !KNOWN.contains(c)).collect();
			let c = *rng.pick(&codes);
			let sz = *rng.pick(&[1usize, 5, 64, 600]);
			p.table.push((c, sz as u16));
			for _ in 0..rng.range(1, 4) {
				let j = rng.range(1, p.events.len());
				let e = (c, rng.bytes(sz));
				p.events.insert(j, e);
			}
			applied.push("unknown-events");
		}
		let has_end = p.events.iter().any(|(c, _)| *c == 0x39);
		let mut y = mutate::assemble(&p, true);
		if junk && has_end {
			// junk after Game End, inside raw: extend the raw element and its declared length
			let n = rng.range(1, 9);
			let mut junk_bytes = rng.bytes(n);
			// must not look like a duplicated Game End
			if n == 1 + spec::end_size(v) {
				junk_bytes[0] = 0xEE;
			}
			let raw_end = y.len() - p.tail.len();
			for (k, b) in junk_bytes.iter().enumerate() {
				y.insert(raw_end + k, *b);
			}
			let declared = (raw_end - 15 + n) as u32;
			y[11..15].copy_from_slice(&declared.to_be_bytes());
			applied.push("junk-after-end");
		}
		if nometa && p.tail.len() > 1 {
			let cut = y.len() - p.tail.len();
			y.truncate(cut);
			y.push(b'}');
			applied.push("no-metadata");
		}
		let regime = if spec::gte(v, (3, 0)) { "start+end" } else if spec::gte(v, (2, 2)) { "start-only" } else { "none" };
		let label = if applied.is_empty() { "regular".to_string() } else { applied.join("+") };
		out.class(format!("{}|{}", regime, label));
		let desc = format!("{} made irregular by [{}]", s.describe(), label);
		out.evals = 1;
		let g = match common::slp_read(&y, false, false) {
			Ok(g) => g,
			Err(f) => {
				// not accepted: outside the property (but a panic is C06's)
				out.count("not_accepted_by_reader", 1);
				out.observe("rejections", f.sig());
				return out;
			}
		};
		// (0) the hash of an accepted irregular file is still the digest of exactly the bytes consumed
		{
			let src = crate::iofault::Src::of(&y);
			let stats = src.stats();
			if let Ok(gh) = common::slp_read_src(src, false, true) {
				let want = format!("xxh3:{:016x}", xxhash_rust::xxh3::xxh3_64(&y[..stats.bytes().min(y.len())]));
				if gh.hash.as_deref() != Some(&want[..]) {
					out.violate("hash-of-irregular-file", format!("{}: hash {:?}, digest of the {} consumed bytes is {}", desc, gh.hash, stats.bytes(), want), Some(&y));
				}
			}
		}
		let c1 = view::cols_imm(&g.frames);
		let w = match common::slp_write(&g) {
			Ok(w) => w,
			Err(f) => {
				out.violate(format!("write-failed;{}", f.sig()), format!("{}: {}", desc, f.text()), Some(&y));
				return out;
			}
		};
		// (1) self-consistency, measured by the reference model
		match model::parse(&w) {
			Ok(m) => {
				if m.declared_raw_len as usize != m.actual_raw_len {
					out.violate("declared-raw-length", format!("{}: written file declares raw length {} but its raw element is {} bytes", desc, m.declared_raw_len, m.actual_raw_len), Some(&y));
				}
				if m.consumed != w.len() {
					out.violate("trailing-bytes-written", format!("{}: written file has {} bytes after its closing brace", desc, w.len() - m.consumed), Some(&y));
				}
				if m.junk_after_end > 0 || m.unknown_events > 0 {
					out.violate("written-file-not-clean", format!("{}: written file contains junk/unknown events", desc), Some(&y));
				}
			}
			Err(e) => out.violate("written-file-inconsistent", format!("{}: reference model cannot parse the written file: {}", desc, e), Some(&y)),
		}
		// (2) re-read equals
		match common::slp_read(&w, false, false) {
			Ok(g2) => {
				let mut diffs = vec![];
				if !common::same_start(&g.start, &g2.start) {
					diffs.push("start");
				}
				if g.end != g2.end {
					diffs.push("end");
				}
				if g.metadata != g2.metadata {
					diffs.push("metadata");
				}
				if g.gecko_codes != g2.gecko_codes {
					diffs.push("gecko");
				}
				if c1 != view::cols_imm(&g2.frames) {
					diffs.push("frame-data");
				}
				if !diffs.is_empty() {
					out.violate(format!("reread-differs;{}", diffs.join("+")), format!("{}: second read differs in {}", desc, diffs.join(", ")), Some(&y));
				}
				// (3) fixed point
				match common::slp_write(&g2) {
					Ok(w2) if w2 == w => out.count("fixed_points", 1),
					Ok(w2) => out.violate("not-a-fixed-point", format!("{}: write(read(w)) != w: {}", desc, common::first_diff(&w, &w2)), Some(&y)),
					Err(f) => out.violate(format!("second-write-failed;{}", f.sig()), format!("{}: {}", desc, f.text()), Some(&y)),
				}
			}
			Err(f) => out.violate(format!("written-file-unreadable;{}", f.sig()), format!("{}: {}", desc, f.text()), Some(&y)),
		}
		if idx % 80 == 0 {
			out.sample = Some(json!({"case": idx, "input": desc, "bytes": y.len(), "observed": if out.violations.is_empty() { "declared == actual raw length; re-read equal; fixed point" } else { "FAILED" }}));
		}
		out
	}
}
