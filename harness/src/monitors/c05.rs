//! C05: Game Start / Game End fields equal the spec-offset values of the raw blocks.

use crate::common;
use crate::driver::{CaseOut, Ctx, Monitor, Tier};
use crate::rng::Rng;
use crate::sjis::Sjis;
use crate::spec::{self, start as so};
use crate::gen;
use serde_json::{json, Value};

pub struct C05 {
	sjis: Sjis,
}

impl C05 {
	pub fn new() -> Self {
		C05 { sjis: Sjis::load() }
	}
}

fn f32_at(b: &[u8], o: usize) -> f32 {
	f32::from_bits(u32::from_be_bytes([b[o], b[o + 1], b[o + 2], b[o + 3]]))
}
fn u32_at(b: &[u8], o: usize) -> u32 {
	u32::from_be_bytes([b[o], b[o + 1], b[o + 2], b[o + 3]])
}
fn jf(f: f32) -> Value {
	if f.is_finite() {
		json!(f as f64)
	} else {
		Value::Null
	}
}
fn cstr(b: &[u8], max: usize) -> Option<String> {
	let n = b.iter().position(|x| *x == 0).unwrap_or(max);
	String::from_utf8(b[..n].to_vec()).ok()
}

const TYPE_NAMES: [&str; 3] = ["Human", "Cpu", "Demo"];
const PORT_NAMES: [&str; 4] = ["P1", "P2", "P3", "P4"];

/// Expected JSON of the Game Start block, from spec offsets only.
fn expected_start_json(sj: &Sjis, b: &[u8]) -> Option<Value> {
	let n = b.len();
	let teams = b[so::TEAMS] != 0;
	let mut players = vec![];
	for p in 0..4usize {
		let o = so::PLAYERS + so::PLAYER_STRIDE * p;
		let ty = b[o + so::P_TYPE];
		if ty > 2 {
			continue;
		}
		let mut pl = serde_json::Map::new();
		pl.insert("port".into(), json!(PORT_NAMES[p]));
		pl.insert("character".into(), json!(b[o + so::P_CHAR]));
		pl.insert("type".into(), json!(TYPE_NAMES[ty as usize]));
		pl.insert("stocks".into(), json!(b[o + so::P_STOCKS]));
		pl.insert("costume".into(), json!(b[o + so::P_COSTUME]));
		pl.insert("team".into(), if teams { json!({"color": b[o + so::P_TEAM], "shade": b[o + so::P_SHADE]}) } else { Value::Null });
		pl.insert("handicap".into(), json!(b[o + so::P_HANDICAP]));
		pl.insert("bitfield".into(), json!(b[o + so::P_BITFIELD]));
		pl.insert("cpu_level".into(), if ty == 1 { json!(b[o + so::P_CPU]) } else { Value::Null });
		pl.insert("offense_ratio".into(), jf(f32_at(b, o + so::P_OFFENSE)));
		pl.insert("defense_ratio".into(), jf(f32_at(b, o + so::P_DEFENSE)));
		pl.insert("model_scale".into(), jf(f32_at(b, o + so::P_SCALE)));
		if n >= 352 {
			let fix = |x: u32| match x {
				0 => Value::Null,
				1 => json!("Ucf"),
				2 => json!("Arduino"),
				_ => json!("<invalid>"),
			};
			pl.insert("ucf".into(), json!({"dash_back": fix(u32_at(b, so::UCF + 8 * p)), "shield_drop": fix(u32_at(b, so::UCF + 8 * p + 4))}));
		}
		if n >= 416 {
			pl.insert("name_tag".into(), json!(sj.decode_field(&b[so::NAME_TAG + 16 * p..so::NAME_TAG + 16 * p + 16])?));
		}
		if n >= 584 {
			let mut np = serde_json::Map::new();
			np.insert("name".into(), json!(sj.decode_field(&b[so::DISPLAY_NAME + 31 * p..so::DISPLAY_NAME + 31 * p + 31])?));
			np.insert("code".into(), json!(sj.decode_field(&b[so::CONNECT_CODE + 10 * p..so::CONNECT_CODE + 10 * p + 10])?));
			if n >= 700 {
				np.insert("suid".into(), json!(cstr(&b[so::SLIPPI_UID + 29 * p..so::SLIPPI_UID + 29 * p + 29], 28)?));
			}
			pl.insert("netplay".into(), Value::Object(np));
		}
		players.push(Value::Object(pl));
	}
	let mut m = serde_json::Map::new();
	m.insert("slippi".into(), json!({"version": [b[0], b[1], b[2]]}));
	m.insert("bitfield".into(), json!(b[so::BITFIELD..so::BITFIELD + 4]));
	m.insert("is_raining_bombs".into(), json!(b[so::BOMBS] != 0));
	m.insert("is_teams".into(), json!(teams));
	m.insert("item_spawn_frequency".into(), json!(b[so::ITEM_FREQ] as i8));
	m.insert("self_destruct_score".into(), json!(b[so::SD_SCORE] as i8));
	m.insert("stage".into(), json!(u16::from_be_bytes([b[so::STAGE], b[so::STAGE + 1]])));
	m.insert("timer".into(), json!(u32_at(b, so::TIMER)));
	m.insert("item_spawn_bitfield".into(), json!(b[so::ITEM_BITFIELD..so::ITEM_BITFIELD + 5]));
	m.insert("damage_ratio".into(), jf(f32_at(b, so::DAMAGE_RATIO)));
	m.insert("players".into(), Value::Array(players));
	m.insert("random_seed".into(), json!(u32_at(b, so::SEED)));
	if n >= 417 {
		m.insert("is_pal".into(), json!(b[so::PAL] != 0));
	}
	if n >= 418 {
		m.insert("is_frozen_ps".into(), json!(b[so::FROZEN_PS] != 0));
	}
	if n >= 420 {
		m.insert("scene".into(), json!({"minor": b[so::SCENE_MINOR], "major": b[so::SCENE_MAJOR]}));
	}
	if n >= 701 {
		m.insert("language".into(), json!(match b[so::LANGUAGE] { 0 => "Japanese", 1 => "English", _ => "<invalid>" }));
	}
	if n >= 760 {
		m.insert("match".into(), json!({"id": cstr(&b[so::MATCH_ID..so::MATCH_ID + 51], 50)?, "game": u32_at(b, so::GAME_NUMBER), "tiebreaker": u32_at(b, so::TIEBREAKER)}));
	}
	Some(Value::Object(m))
}

fn expected_end_json(b: &[u8]) -> Value {
	let mut m = serde_json::Map::new();
	m.insert(
		"method".into(),
		json!(match b[0] {
			0 => "Unresolved",
			1 => "Time",
			2 => "Game",
			3 => "Resolved",
			7 => "NoContest",
			_ => "<invalid>",
		}),
	);
	if b.len() >= 2 {
		m.insert("lras_initiator".into(), if b[1] == 255 { Value::Null } else if b[1] < 4 { json!(PORT_NAMES[b[1] as usize]) } else { json!("<invalid>") });
	}
	if b.len() >= 6 {
		let mut ps = vec![];
		for p in 0..4 {
			let pl = b[2 + p] as i8;
			if (0..=3).contains(&pl) {
				ps.push(json!({"port": PORT_NAMES[p], "placement": pl}));
			} else if pl != -1 {
				ps.push(json!({"port": PORT_NAMES[p], "placement": "<invalid>"}));
			}
		}
		m.insert("players".into(), Value::Array(ps));
	}
	Value::Object(m)
}

/// first differing JSON path between peppi's rendered document (parsed with the
/// harness's own parser, numbers kept as text) and the expected document.
/// Floats are compared as f32 values parsed from the text.
fn json_diff(a: &crate::jsonord::J, b: &Value, path: &str) -> Option<String> {
	use crate::jsonord::J;
	match (a, b) {
		(J::Obj(x), Value::Object(y)) => {
			for (k, v) in x {
				match y.get(k) {
					None => return Some(format!("{}.{} present in peppi's JSON but not expected", path, k)),
					Some(w) => {
						if let Some(d) = json_diff(v, w, &format!("{}.{}", path, k)) {
							return Some(d);
						}
					}
				}
			}
			if x.len() != y.len() {
				for k in y.keys() {
					if !x.iter().any(|(kk, _)| kk == k) {
						return Some(format!("{}.{} expected but missing", path, k));
					}
				}
				return Some(format!("{}: duplicate keys", path));
			}
			None
		}
		(J::Arr(x), Value::Array(y)) => {
			if x.len() != y.len() {
				return Some(format!("{}: {} elements, expected {}", path, x.len(), y.len()));
			}
			for (i, (v, w)) in x.iter().zip(y.iter()).enumerate() {
				if let Some(d) = json_diff(v, w, &format!("{}[{}]", path, i)) {
					return Some(d);
				}
			}
			None
		}
		(J::Num(t), Value::Number(n)) => {
			let ok = if n.is_f64() { t.parse::<f32>().ok().map(|f| f.to_bits()) == n.as_f64().map(|f| (f as f32).to_bits()) } else { *t == n.to_string() };
			if ok {
				None
			} else {
				Some(format!("{}: {} expected {}", path, t, n))
			}
		}
		(J::Str(x), Value::String(y)) if x == y => None,
		(J::Bool(x), Value::Bool(y)) if x == y => None,
		(J::Null, Value::Null) => None,
		_ => Some(format!("{}: {:?} expected {}", path, a, b)),
	}
}

const OTHER_TYPES: [u8; 6] = [3, 4, 5, 0x7f, 0x80, 0xff];

impl Monitor for C05 {
	fn id(&self) -> &'static str {
		"C05"
	}
	fn rule(&self) -> String {
		"Game Start payloads of each of the 10 length classes (320/352/416/417/418/420/584/700/701/760 bytes) are filled with random bytes (validated enum-like bytes - UCF toggles, language, name fields valid Shift-JIS, UID/match id valid UTF-8 - drawn from their valid sets, NUL-terminated strings with garbage after the NUL; every 9th block instead carries ONE value outside the valid set in such a byte, which must be rejected or exposed faithfully - never decoded as a different value) x player-type byte of each of the 4 ports from {human, CPU, demo, 3, other} (quick: seeded random patterns; thorough: all 5^4 patterns per class) x teams on/off x random version inside the class's version range; Game End payloads of the 3 classes x method x LRAS {255,0..3} x placements {-1..3}. Each is embedded in a complete replay and read with slippi::read. Oracle = values at the hand-transcribed spec offsets: every struct field (floats by bit pattern), optionals present iff the block is long enough, players exactly the ports with type 0/1/2 in port order, team/cpu_level gating, strings up to the first NUL, raw block retained; and the JSON rendering (serde's text output parsed back with the harness's own JSON parser; floats compared as f32) equal to the oracle's document, with version-gated keys omitted. distinct = (length class, type pattern class, teams, end class) classes.".into()
	}
	fn assumptions(&self) -> Vec<String> {
		vec!["spec.rs Game Start/End offsets are the oracle".into(), "bytes the reader validates are drawn from their valid sets (rejecting other values is correct and exercised by C06)".into()]
	}
	fn n_cases(&self, ctx: &Ctx) -> usize {
		ctx.tier.pick(20000, 10 * 625 * 2 * 8)
	}
	fn min_classes(&self, tier: Tier) -> usize {
		tier.pick(100, 300)
	}
	fn exhaustive(&self, _tier: Tier) -> bool {
		false
	}
	fn run(&self, ctx: &Ctx, idx: usize) -> CaseOut {
		let mut out = CaseOut::default();
		let mut rng = Rng::derive(ctx.seed, 0xC05 ^ (idx as u64) << 4);
		let (class, pattern, teams) = match ctx.tier {
			// every (class, pattern, teams) combination 8 times with different random fills
			Tier::Thorough => (idx % 10, (idx / 10) % 625, (idx / 6250) % 2 == 1),
			Tier::Quick => (idx % 10, rng.below(625), rng.chance(1, 2)),
		};
		let (vmin, len) = spec::START_CLASSES[class];
		let vnext = spec::START_CLASSES.get(class + 1).map(|c| c.0).unwrap_or((3, 17));
		// a version inside the class's range
		let vers: Vec<(u8, u8)> = spec::all_versions().into_iter().filter(|v| spec::gte(*v, vmin) && !spec::gte(*v, vnext)).collect();
		let v = *rng.pick(&vers);
		let patch = if v == (3, 16) { 0 } else { rng.byte() };
		// types
		let mut types = [0u8; 4];
		let mut pat = pattern;
		for t in types.iter_mut() {
			*t = match pat % 5 {
				0 => 0,
				1 => 1,
				2 => 2,
				3 => 3,
				_ => *rng.pick(&OTHER_TYPES),
			};
			pat /= 5;
		}
		let ports: Vec<(u8, bool)> = (0..4u8).filter(|p| types[*p as usize] <= 2).map(|p| (p, rng.chance(1, 4))).collect();
		let mut s = gen::base_spec((v.0, v.1, patch), ports.clone(), 0);
		s.build = rng.byte();
		s.rich_start = true;
		s.teams = teams;
		s.ptypes = ports.iter().map(|(p, _)| types[*p as usize]).collect();
		let mut st = gen::start_block(&s, &mut rng);
		assert_eq!(st.len(), len);
		for p in 0..4usize {
			if types[p] > 2 {
				st[so::PLAYERS + so::PLAYER_STRIDE * p + so::P_TYPE] = types[p];
			}
		}
		// strings that fill their field completely up to the last allowed byte
		let mut unterminated = false;
		if len >= 700 && rng.chance(1, 3) {
			let p = rng.below(4);
			for i in 0..28 {
				st[so::SLIPPI_UID + 29 * p + i] = b'a' + (i % 26) as u8;
			}
			// one time in two the terminator is missing as well: the value is then the first 28 bytes
			if rng.chance(1, 2) {
				st[so::SLIPPI_UID + 29 * p + 28] = b'#';
				unterminated = true;
			} else {
				st[so::SLIPPI_UID + 29 * p + 28] = 0;
			}
		}
		if len >= 760 && rng.chance(1, 3) {
			for i in 0..50 {
				st[so::MATCH_ID + i] = b'A' + (i % 26) as u8;
			}
			if rng.chance(1, 2) {
				st[so::MATCH_ID + 50] = b'#';
				unterminated = true;
			} else {
				st[so::MATCH_ID + 50] = 0;
			}
		}
		// every 9th case plants ONE value outside the valid set in a byte the reader validates
		// (UCF toggle, language, end method, LRAS initiator, placement): the reader must either
		// reject the file or expose exactly that value - it must not decode it as something else
		let mut planted: Option<String> = None;
		if idx % 9 == 4 {
			match rng.below(2) {
				0 if len >= 352 => {
					let p = rng.below(4);
					let v = *rng.pick(&[3u32, 4, 255, 256, 0x8000_0001, u32::MAX]);
					let o = so::UCF + 8 * p + 4 * rng.below(2);
					st[o..o + 4].copy_from_slice(&v.to_be_bytes());
					planted = Some(format!("UCF word of port {} = {:#x}", p, v));
				}
				0 if len >= 701 => {
					st[so::LANGUAGE] = *rng.pick(&[2u8, 3, 0x7f, 0x80, 0xff]);
					planted = Some(format!("language byte = {:#x}", st[so::LANGUAGE]));
				}
				_ => {}
			}
		}
		s.start_override = Some(st.clone());
		s.ends = 1;
		let mut end = gen::end_block(v, 0, &mut rng);
		if idx % 7 == 0 {
			end[0] = [0u8, 1, 2, 3, 7][(idx / 7) % 5];
		}
		if idx % 9 == 4 && planted.is_none() {
			let which = rng.below(3);
			if which == 0 {
				end[0] = *rng.pick(&[4u8, 5, 6, 8, 0x7f, 0x80, 0xfe, 0xff]);
				planted = Some(format!("end method byte = {:#x}", end[0]));
			} else if which == 1 && end.len() >= 2 {
				end[1] = *rng.pick(&[4u8, 5, 0x7f, 0x80, 0x81, 0xc0, 0xfe]);
				planted = Some(format!("LRAS byte = {:#x}", end[1]));
			} else if end.len() >= 6 {
				let k = 2 + rng.below(4);
				end[k] = *rng.pick(&[4u8, 5, 0x7f, 0x80, 0xfe]);
				planted = Some(format!("placement byte {} = {:#x}", k - 2, end[k]));
			}
		}
		s.end_override = Some(end.clone());
		s.metadata = None;
		let built = gen::build(&s, &mut rng);
		out.evals = 1;
		let tclass: String = types.iter().map(|t| match t { 0 => 'H', 1 => 'C', 2 => 'D', 3 => '-', _ => '?' }).collect();
		out.class(format!("start-len={} teams={}", len, teams));
		out.class(format!("types={}", tclass));
		out.class(format!("end-len={} method={} lras={}", end.len(), end[0], end.get(1).map_or("n/a".to_string(), |x| x.to_string())));
		let desc = format!("v{}.{}.{} start block of {} bytes, types {}, teams {}, end {:02x?}", v.0, v.1, patch, len, tclass, teams, end);
		let game = match common::slp_read(&built.bytes, false, false) {
			Ok(g) => g,
			Err(common::Fail::Err(_)) if planted.is_some() => {
				// rejecting a value outside the valid set is correct
				out.count("invalid_value_rejected", 1);
				out.class("planted-invalid-value|rejected".to_string());
				return out;
			}
			Err(common::Fail::Err(_)) if unterminated => {
				// a string field without its terminator is outside the spec: refusing the block is
				// a legitimate answer; only an accepted block is judged (content = first 28 / 50 bytes)
				out.count("unterminated_string_rejected", 1);
				out.class("unterminated-string|rejected".to_string());
				return out;
			}
			Err(f) => {
				out.violate(format!("read-failed;{}", f.sig()), format!("{}: {}", desc, f.text()), Some(&built.bytes));
				return out;
			}
		};
		if unterminated {
			out.class("unterminated-string|accepted".to_string());
		}
		if let Some(pl) = &planted {
			// accepted: then every field must still equal the oracle's rendering, which shows the
			// planted value as "<invalid>" - i.e. acceptance is only right if the reader has a way to
			// expose the value faithfully
			out.class("planted-invalid-value|accepted".to_string());
			out.observe("planted_values_accepted", pl.clone());
		}
		// struct-level checks that JSON cannot express: raw retention, float bits
		if game.start.bytes.0 != st {
			out.violate("start-raw-not-retained", format!("{}: start.bytes differs from the raw block", desc), Some(&built.bytes));
		}
		match &game.end {
			Some(e) if e.bytes.0 == end => {}
			_ => out.violate("end-raw-not-retained", format!("{}: end.bytes differs from the raw block", desc), Some(&built.bytes)),
		}
		if game.start.damage_ratio.to_bits() != f32_at(&st, so::DAMAGE_RATIO).to_bits() {
			out.violate("float-bits;damage_ratio", format!("{}: damage_ratio bits {:#x}", desc, game.start.damage_ratio.to_bits()), Some(&built.bytes));
		}
		for pl in &game.start.players {
			let o = so::PLAYERS + so::PLAYER_STRIDE * pl.port as usize;
			for (name, got, off) in [("offense_ratio", pl.offense_ratio, so::P_OFFENSE), ("defense_ratio", pl.defense_ratio, so::P_DEFENSE), ("model_scale", pl.model_scale, so::P_SCALE)] {
				if got.to_bits() != f32_at(&st, o + off).to_bits() {
					out.violate(format!("float-bits;{}", name), format!("{}: port {} {} bits {:#x} want {:#x}", desc, pl.port, name, got.to_bits(), f32_at(&st, o + off).to_bits()), Some(&built.bytes));
				}
			}
		}
		// JSON: parse back serde's text output
		let render = |v: &dyn Fn() -> Result<String, serde_json::Error>| -> Option<crate::jsonord::J> { v().ok().and_then(|s| crate::jsonord::parse(s.as_bytes()).ok()) };
		let sj = render(&|| serde_json::to_string(&game.start));
		let ej = render(&|| serde_json::to_string(game.end.as_ref().unwrap()));
		match (sj, expected_start_json(&self.sjis, &st)) {
			(Some(got), Some(want)) => {
				if let Some(d) = json_diff(&got, &want, "start") {
					let key = d.split(|c| c == ':' || c == ' ').next().unwrap_or("").to_string();
					let key: String = key.chars().map(|c| if c.is_ascii_digit() { 'N' } else { c }).collect();
					out.violate(format!("start-field;{}", key), format!("{}: {}", desc, d), Some(&built.bytes));
				} else {
					out.count("start_documents_equal", 1);
				}
			}
			(None, _) => out.violate("start-json-unrenderable", format!("{}: serde cannot render/parse the start", desc), Some(&built.bytes)),
			(_, None) => out.inconclusive.push(format!("{}: oracle could not decode a generated string field", desc)),
		}
		match ej {
			Some(got) => {
				let want = expected_end_json(&end);
				if let Some(d) = json_diff(&got, &want, "end") {
					let key = d.split(|c| c == ':' || c == ' ').next().unwrap_or("").to_string();
					out.violate(format!("end-field;{}", key), format!("{}: {}", desc, d), Some(&built.bytes));
				} else {
					out.count("end_documents_equal", 1);
				}
			}
			None => out.violate("end-json-unrenderable", format!("{}: serde cannot render the end", desc), Some(&built.bytes)),
		}
		if idx % 60 == 0 {
			out.sample = Some(json!({"case": idx, "input": desc, "players_listed": game.start.players.len(), "observed": if out.violations.is_empty() { "all Start/End fields and JSON equal the spec-offset values" } else { "MISMATCH" }}));
		}
		out
	}
}
