//! C02: .slp -> .slpp -> .slp is lossless under every compression option.

use super::c01::case_input;
use super::c14::empty_struct_class;
use crate::common::{self, Comp, Fail, Space};
use crate::driver::{Lane, LaneKind, norm_msg, CaseOut, Ctx, Monitor, Tier};
use serde_json::json;

pub struct C02 {
	quick: Space,
	thorough: Space,
	fixtures: Vec<(String, Vec<u8>)>,
}

impl C02 {
	pub fn new() -> Self {
		let mut q = Space::new(false);
		q.n_random = 800;
		let mut t = Space::new(true);
		t.n_random = 60000;
		C02 { quick: q, thorough: t, fixtures: common::fixtures() }
	}
}

/// number of thread populations tried by the concurrent case (quick, thorough)
const N_STRESS: (usize, usize) = (8, 64);

/// Threads of one process convert DIFFERENT small games at the same time, again and again. The
/// archive each conversion produces is compared with the one the same game gave single-threaded;
/// any other archive is judged in full (read back, serialised, compared with the input file).
fn stress_kind(ctx: &Ctx, k: usize, out: &mut CaseOut) {
	let nthreads = 12;
	let iters = ctx.tier.pick(1500usize, 4000);
	let comp = Comp::ALL[k % 3];
	let mut inputs = vec![];
	for (d, b) in crate::stress::games(ctx.seed, k, nthreads, true) {
		// single-threaded reference, itself required to be lossless (else C02's main family reports it)
		let reference = common::slp_read(&b, false, false).and_then(|g| common::slpp_write(g, comp));
		match reference {
			Ok(a) if common::slpp_read(&a, false).and_then(|g| common::slp_write(&g)).map_or(false, |w| w == b) => inputs.push((d, b, a)),
			_ => out.count("stress_input_skipped(sequential trip not lossless)", 1),
		}
	}
	if inputs.len() < 2 {
		return;
	}
	let n_in = inputs.len();
	let results = crate::stress::run(inputs, move |_t, (d, b, reference)| {
		let mut o = crate::stress::Outcome::default();
		for i in 0..iters {
			let r = common::slp_read(&b, false, false).and_then(|g| common::slpp_write(g, comp));
			match r {
				Ok(a) if a == reference => {}
				Ok(a) => {
					o.judged_in_full += 1;
					match common::slpp_read(&a, false).and_then(|g| common::slp_write(&g)) {
						Ok(w) if w == b => {}
						Ok(w) => o.problems.push(format!("{}: conversion {} while other threads convert other games: the archive reads back as a different game: {}", d, i, common::first_diff(&b, &w))),
						Err(f) => o.problems.push(format!("{}: conversion {} while other threads convert other games: the archive cannot be read back: {}", d, i, f.text())),
					}
				}
				Err(f) => o.problems.push(format!("{}: conversion {} while other threads convert other games: {}", d, i, f.text())),
			}
			o.done += 1;
			if o.problems.len() >= 2 {
				break;
			}
		}
		o
	});
	for r in results {
		match r {
			Ok(o) => {
				out.evals += o.done;
				out.count("concurrent_conversions", o.done);
				out.count("concurrent_archives_judged_in_full", o.judged_in_full);
				for p in o.problems.into_iter().take(1) {
					out.violate_sub(k as u64, "concurrent-conversion-lossy", p, None);
				}
			}
			Err(()) => out.violate_sub(k as u64, "concurrent-conversion-panic", "a thread of the concurrent case panicked outside the guards".to_string(), None),
		}
	}
	out.class(format!("concurrent|{}-threads|{}|comp={}", n_in, crate::stress::kind_name(k), comp.name()));
}

/// The concurrent family is ONE case, numbered last: its shard reaches it when the other shards
/// are finishing, so its threads really run side by side on the cores instead of time-sliced among
/// 16 busy worker processes. The kinds of thread population are its sub-evaluations.
fn stress_case(ctx: &Ctx) -> CaseOut {
	let mut out = CaseOut::default();
	for k in 0..ctx.tier.pick(N_STRESS.0, N_STRESS.1) {
		if !ctx.mark(k as u64) {
			continue;
		}
		stress_kind(ctx, k, &mut out);
	}
	out.sample = Some(json!({"case": "concurrent", "kinds": ctx.tier.pick(N_STRESS.0, N_STRESS.1), "evaluations": out.evals}));
	out
}

impl Monitor for C02 {
	fn id(&self) -> &'static str {
		"C02"
	}
	fn rule(&self) -> String {
		"C01's replay space (fixtures, all 784 versions, layout x shape matrix incl. zero frames / no metadata / no Game End / no gecko / doubled end / empty port set, random histories; plus very long games with 65 535 .. 140 000 frame rows) x compression {none, LZ4, ZSTD} x hash {requested, not}. Steps observed separately: slippi::read -> peppi::write -> [every 4th trip: a read of the archive truncated to 2/3, which must not influence what follows] -> peppi::read (through the fragmenting source: whole / 512 / 97 / random<=3000 / 8192-byte reads, rotating) -> slippi::write; every third archive is also written through a sink that accepts 1/5/511/513 bytes per call and must read back losslessly as well; oracle: final bytes == input bytes, hash and quirks after the trip == before. A family of concurrent cases runs 12 threads that each convert a DIFFERENT small game 1500 (4000) times at once (same version and ports but other frames in even cases, different versions and ports in odd ones); every archive that differs from the single-threaded one is read back and must serialise to its own input. One evaluation = one (file, compression, hash) triple or one concurrent conversion. distinct = workload classes x compression x hash.".into()
	}
	fn lanes(&self, _tier: Tier) -> Vec<Lane> {
		vec![
			Lane { kind: LaneKind::Valgrind, name: "roundtrip-slpp", shards: (0..8).collect(), nshards: 8 },
			Lane { kind: LaneKind::Miri, name: "roundtrip-slpp", shards: (0..25).collect(), nshards: 25 },
		]
	}
	fn n_cases(&self, ctx: &Ctx) -> usize {
		self.fixtures.len() + ctx.tier.pick(&self.quick, &self.thorough).len() + ctx.tier.pick(2, 8) + 1
	}
	fn min_classes(&self, tier: Tier) -> usize {
		tier.pick(100, 200)
	}
	fn run(&self, ctx: &Ctx, idx: usize) -> CaseOut {
		let mut out = CaseOut::default();
		let n_main = self.fixtures.len() + ctx.tier.pick(&self.quick, &self.thorough).len();
		if idx >= n_main + ctx.tier.pick(2, 8) {
			return stress_case(ctx);
		}
		let input = if idx >= n_main {
			// very long games: row counts around 2^16 and beyond (one small character, old layout)
			let k = idx - n_main;
			let n = [65_537usize, 65_536, 70_000, 131_073, 65_535, 100_000, 140_000, 66_000][k % 8];
			let ver = [(0u8, 1u8, 0u8), (3, 16, 0), (2, 0, 0), (3, 7, 0)][k % 4];
			let mut rng = crate::rng::Rng::derive(ctx.seed, 0xB16 + k as u64);
			let mut s = crate::gen::base_spec(ver, vec![(1, false)], n);
			for f in s.frames.iter_mut() {
				f.items = 0;
			}
			let b = crate::gen::build(&s, &mut rng);
			out.class(format!("huge|rows={}|v{}.{}", n, ver.0, ver.1));
			Some((format!("{} [huge]", s.describe()), b.bytes, b.truth))
		} else {
			case_input(ctx.tier.pick(&self.quick, &self.thorough), &self.fixtures, ctx.seed, idx, &mut out)
		};
		let Some((desc, bytes, truth)) = input else { return out };
		let base_classes: Vec<String> = out.classes.iter().cloned().collect();
		let nports = crate::view::occupied_chars(&truth.start).iter().filter(|c| !c.1).count();
		// big fixtures: one compression per hash setting is enough for quick
		let big = bytes.len() > 400_000 && ctx.tier == Tier::Quick;
		for hash in [false, true] {
			for (ci, comp) in Comp::ALL.iter().enumerate() {
				if big && (ci + hash as usize + idx) % 3 != 0 {
					continue;
				}
				out.evals += 1;
				for c in base_classes.iter().take(3) {
					out.class(format!("{} comp={} hash={}", c, comp.name(), hash));
				}
				let game = match common::slp_read(&bytes, false, hash) {
					Ok(g) => g,
					Err(f) => {
						out.violate(format!("step=slp_read;{}", f.sig()), format!("{}: {}", desc, f.text()), Some(&bytes));
						return out;
					}
				};
				let (h0, q0) = (game.hash.clone(), game.quirks.map(|q| q.double_game_end));
				if hash != h0.is_some() {
					out.violate("hash-presence", format!("{}: hash requested={} but reported {:?}", desc, hash, h0), Some(&bytes));
				}
				// history: every 4th trip is preceded by a write of the same game into a sink that fails
				// part-way (same thread); it must fail and leave nothing behind
				if (idx + ci) % 4 == 2 {
					if (idx / 4) % 2 == 0 {
						if let Ok(g0) = common::slp_read(&bytes, false, hash) {
							let cut = 600 + (idx * 7919 + ci * 104729) % (bytes.len() + 4000);
							let (r, _) = common::slpp_write_sink(g0, *comp, crate::iofault::Sink::failing(cut));
							match r {
								Err(_) => out.count("failing_sink_write_before_real_write", 1),
								Ok(()) => out.count("failing_sink_beyond_archive_end", 1),
							}
						}
					} else {
						// the write that fails is of ANOTHER game of the same shape (same version and
						// ports, other frame content), and it fails late, inside frames.arrow: whatever it
						// left behind would be invisible if it were the same game
						let mut r3 = crate::rng::Rng::derive(ctx.seed, 0xC02D ^ idx as u64);
						if let Some(ob) = common::sibling_game(truth.version, &truth.start, 5 + idx % 7, &mut r3) {
							let full = common::slp_read(&ob, false, hash).and_then(|g| common::slpp_write(g, *comp));
							if let (Ok(full), Ok(g0)) = (full, common::slp_read(&ob, false, hash)) {
								let back = [3usize, 700, 1100, 1600, 2600, 5000][(idx / 8) % 6].min(full.len() / 2);
								let (r, _) = common::slpp_write_sink(g0, *comp, crate::iofault::Sink::failing(full.len() - back));
								match r {
									Err(_) => out.count("failing_late_write_of_another_game_before_real_write", 1),
									Ok(()) => out.count("failing_sink_beyond_archive_end", 1),
								}
							}
						}
					}
				}
				let slpp = match common::slpp_write(game, *comp) {
					Ok(b) => b,
					Err(f) => {
						let sig = match &f {
							Fail::Panic(p) => format!("step=slpp_write;panic;{};class={}", norm_msg(&p.msg), empty_struct_class(truth.v(), nports)),
							Fail::Err(e) => format!("step=slpp_write;err;{}", norm_msg(e)),
						};
						out.violate(sig, format!("{} comp={}: peppi::write failed: {}", desc, comp.name(), f.text()), Some(&bytes));
						continue;
					}
				};
				out.count("slpp_bytes", slpp.len() as u64);
				// the same archive must come out of a sink that takes only a few bytes per call
				if (idx + ci) % 3 == 0 && slpp.len() < 400_000 {
					if let Ok(g3) = common::slp_read(&bytes, false, hash) {
						let k = [1usize, 5, 511, 513][(idx / 3) % 4];
						let (r, sink) = common::slpp_write_sink(g3, *comp, crate::iofault::Sink::short(k));
						// C02 is about losslessness, not about two writes being byte-identical (that is
						// C18): the archive that arrived in the short-writing sink must read back to a
						// game that serialises to the original file
						match r {
							Ok(()) => match common::slpp_read(&sink.buf, false).and_then(|g4| common::slp_write(&g4)) {
								Ok(w) if w == bytes => out.count("short_write_sink_archive_lossless", 1),
								Ok(w) => out.violate("slpp-short-write-sink-lossy", format!("{} comp={}: the archive written through a sink accepting {} bytes per call reads back differently: {}", desc, comp.name(), k, common::first_diff(&bytes, &w)), Some(&bytes)),
								Err(f) => out.violate(format!("slpp-short-write-sink-unreadable;{}", f.sig()), format!("{} comp={}: the archive written through a sink accepting {} bytes per call cannot be read back: {}", desc, comp.name(), k, f.text()), Some(&bytes)),
							},
							Err(f) => out.violate(format!("slpp-short-write-sink-failed;{}", f.sig()), format!("{}: {}", desc, f.text()), Some(&bytes)),
						}
					}
				}
				// history: every 4th trip first attempts to read a truncated copy of the archive on the
				// same thread (it must fail; whatever it does must not leak into the next read)
				let with_history = (idx + ci) % 4 == 0 && slpp.len() > 2048;
				// the archive is read through the instrumented source under a read schedule that
				// rotates with the case: peppi::read takes any `Read`, short reads included
				let sched = match (idx + ci + hash as usize) % 5 {
					0 => crate::iofault::Policy::Whole,
					1 => crate::iofault::Policy::Fixed(512),
					2 => crate::iofault::Policy::Fixed(97),
					3 => crate::iofault::Policy::Random(3000, idx as u64),
					_ => crate::iofault::Policy::Fixed(8192),
				};
				out.class(format!("slpp-read-schedule={}", sched.name()));
				// The truncated pre-read and the real read must run on the SAME thread (state left in a
				// thread-local by the failed read is exactly what this is about). Both run on one
				// supervised thread, so that a reader blocking on the truncated copy (C07's business)
				// cannot block this check; if that happens the real read is repeated without history.
				use std::sync::atomic::{AtomicBool, Ordering};
				static PRE_READ_DISABLED: AtomicBool = AtomicBool::new(false);
				let mut real: Option<Result<peppi::game::immutable::Game, common::Fail>> = None;
				if with_history && !PRE_READ_DISABLED.load(Ordering::Relaxed) {
					let (arch, sc) = (std::sync::Arc::new(slpp.clone()), sched.clone());
					let cut = slpp.len() * 2 / 3;
					match crate::driver::watched(
						move || {
							let pre_ok = common::slpp_read(&arch[..cut], false).is_ok();
							(pre_ok, common::slpp_read_src(crate::iofault::Src::new(arch.clone(), sc), false))
						},
						|| 0,
						std::time::Duration::from_secs(5),
						std::time::Duration::from_secs(12),
					) {
						crate::driver::Watched::Done((pre_ok, r)) => {
							out.count(if pre_ok { "truncated_archive_accepted(see C07)" } else { "truncated_archive_rejected_before_real_read" }, 1);
							real = Some(r);
						}
						_ => {
							PRE_READ_DISABLED.store(true, Ordering::Relaxed);
							out.count("truncated_pre_read_did_not_return(see C07)", 1);
						}
					}
				}
				let real = match real {
					Some(r) => r,
					None => common::slpp_read_src(crate::iofault::Src::new(std::sync::Arc::new(slpp.clone()), sched.clone()), false),
				};
				let game2 = match real {
					Ok(g) => g,
					Err(f) => {
						let class = if truth.frames.is_empty() { "zero-frames" } else if truth.metadata.is_none() { "no-metadata" } else { "other" };
						out.violate(format!("step=slpp_read;{};class={}", f.sig(), class), format!("{} comp={} schedule={}: peppi::read of freshly written .slpp failed: {}", desc, comp.name(), sched.name(), f.text()), Some(&bytes));
						continue;
					}
				};
				if game2.hash != h0 {
					out.violate("hash-changed", format!("{}: hash {:?} -> {:?}", desc, h0, game2.hash), Some(&bytes));
				}
				if game2.quirks.map(|q| q.double_game_end) != q0 {
					out.violate("quirks-changed", format!("{}: quirks {:?} -> {:?}", desc, q0, game2.quirks.map(|q| q.double_game_end)), Some(&bytes));
				}
				match common::slp_write(&game2) {
					Ok(w) if w == bytes => out.count("lossless_trips", 1),
					Ok(w) => out.violate(format!("trip-differs;comp={}", comp.name()), format!("{} comp={}: {} [{}]", desc, comp.name(), common::first_diff(&bytes, &w), common::locate(&truth, (0..w.len().min(bytes.len())).find(|&i| w[i] != bytes[i]).unwrap_or(0))), Some(&bytes)),
					Err(f) => out.violate(format!("step=slp_write;{}", f.sig()), format!("{}: {}", desc, f.text()), Some(&bytes)),
				}
			}
		}
		if idx % 40 == 0 {
			out.sample = Some(json!({"case": idx, "input": desc, "triples": out.evals, "observed": if out.violations.is_empty() { "slp->slpp->slp identical for all compressions; hash/quirks preserved" } else { "FAILED" }}));
		}
		out
	}
}
