//! C02: .slp -> .slpp -> .slp is lossless under every compression option.

use super::c01::case_input;
use super::c14::empty_struct_class;
use crate::common::{self, Comp, Fail, Space};
use crate::driver::{Lane, LaneKind, norm_msg, CaseOut, Ctx, Monitor, Tier};
use serde_json::json;

pub struct C02 {
	quick: Space,
	thorough: Space,
	fixtures: Vec<(String, Vec<u8>)>,
}

impl C02 {
	pub fn new() -> Self {
		let mut q = Space::new(false);
		q.n_random = 800;
		let mut t = Space::new(true);
		t.n_random = 60000;
		C02 { quick: q, thorough: t, fixtures: common::fixtures() }
	}
}

impl Monitor for C02 {
	fn id(&self) -> &'static str {
		"C02"
	}
	fn rule(&self) -> String {
		"C01's replay space (fixtures, all 784 versions, layout x shape matrix incl. zero frames / no metadata / no Game End / no gecko / doubled end / empty port set, random histories) x compression {none, LZ4, ZSTD} x hash {requested, not}. Steps observed separately: slippi::read -> peppi::write -> [every 4th trip: a read of the archive truncated to 2/3, which must not influence what follows] -> peppi::read (through the fragmenting source: whole / 512 / 97 / random<=3000 / 8192-byte reads, rotating) -> slippi::write; oracle: final bytes == input bytes, hash and quirks after the trip == before. One evaluation = one (file, compression, hash) triple. distinct = workload classes x compression x hash.".into()
	}
	fn lanes(&self, _tier: Tier) -> Vec<Lane> {
		vec![
			Lane { kind: LaneKind::Valgrind, name: "roundtrip-slpp", shards: (0..8).collect(), nshards: 8 },
			Lane { kind: LaneKind::Miri, name: "roundtrip-slpp", shards: (0..25).collect(), nshards: 25 },
		]
	}
	fn n_cases(&self, ctx: &Ctx) -> usize {
		self.fixtures.len() + ctx.tier.pick(&self.quick, &self.thorough).len()
	}
	fn min_classes(&self, tier: Tier) -> usize {
		tier.pick(100, 200)
	}
	fn run(&self, ctx: &Ctx, idx: usize) -> CaseOut {
		let mut out = CaseOut::default();
		let Some((desc, bytes, truth)) = case_input(ctx.tier.pick(&self.quick, &self.thorough), &self.fixtures, ctx.seed, idx, &mut out) else { return out };
		let base_classes: Vec<String> = out.classes.iter().cloned().collect();
		let nports = crate::view::occupied_chars(&truth.start).iter().filter(|c| !c.1).count();
		// big fixtures: one compression per hash setting is enough for quick
		let big = bytes.len() > 400_000 && ctx.tier == Tier::Quick;
		for hash in [false, true] {
			for (ci, comp) in Comp::ALL.iter().enumerate() {
				if big && (ci + hash as usize + idx) % 3 != 0 {
					continue;
				}
				out.evals += 1;
				for c in base_classes.iter().take(3) {
					out.class(format!("{} comp={} hash={}", c, comp.name(), hash));
				}
				let game = match common::slp_read(&bytes, false, hash) {
					Ok(g) => g,
					Err(f) => {
						out.violate(format!("step=slp_read;{}", f.sig()), format!("{}: {}", desc, f.text()), Some(&bytes));
						return out;
					}
				};
				let (h0, q0) = (game.hash.clone(), game.quirks.map(|q| q.double_game_end));
				if hash != h0.is_some() {
					out.violate("hash-presence", format!("{}: hash requested={} but reported {:?}", desc, hash, h0), Some(&bytes));
				}
				let slpp = match common::slpp_write(game, *comp) {
					Ok(b) => b,
					Err(f) => {
						let sig = match &f {
							Fail::Panic(p) => format!("step=slpp_write;panic;{};class={}", norm_msg(&p.msg), empty_struct_class(truth.v(), nports)),
							Fail::Err(e) => format!("step=slpp_write;err;{}", norm_msg(e)),
						};
						out.violate(sig, format!("{} comp={}: peppi::write failed: {}", desc, comp.name(), f.text()), Some(&bytes));
						continue;
					}
				};
				out.count("slpp_bytes", slpp.len() as u64);
				// history: every 4th trip first attempts to read a truncated copy of the archive on the
				// same thread (it must fail, whatever it does must not leak into the next read)
				if (idx + ci) % 4 == 0 && slpp.len() > 2048 {
					let cut = slpp.len() * 2 / 3;
					match common::slpp_read(&slpp[..cut], false) {
						Err(_) => out.count("truncated_archive_rejected_before_real_read", 1),
						Ok(_) => out.count("truncated_archive_accepted(see C07)", 1),
					}
				}
				// the archive is read through the instrumented source under a read schedule that
				// rotates with the case: peppi::read takes any `Read`, short reads included
				let sched = match (idx + ci + hash as usize) % 5 {
					0 => crate::iofault::Policy::Whole,
					1 => crate::iofault::Policy::Fixed(512),
					2 => crate::iofault::Policy::Fixed(97),
					3 => crate::iofault::Policy::Random(3000, idx as u64),
					_ => crate::iofault::Policy::Fixed(8192),
				};
				out.class(format!("slpp-read-schedule={}", sched.name()));
				let game2 = match common::slpp_read_src(crate::iofault::Src::new(std::sync::Arc::new(slpp.clone()), sched.clone()), false) {
					Ok(g) => g,
					Err(f) => {
						let class = if truth.frames.is_empty() { "zero-frames" } else if truth.metadata.is_none() { "no-metadata" } else { "other" };
						out.violate(format!("step=slpp_read;{};class={}", f.sig(), class), format!("{} comp={} schedule={}: peppi::read of freshly written .slpp failed: {}", desc, comp.name(), sched.name(), f.text()), Some(&bytes));
						continue;
					}
				};
				if game2.hash != h0 {
					out.violate("hash-changed", format!("{}: hash {:?} -> {:?}", desc, h0, game2.hash), Some(&bytes));
				}
				if game2.quirks.map(|q| q.double_game_end) != q0 {
					out.violate("quirks-changed", format!("{}: quirks {:?} -> {:?}", desc, q0, game2.quirks.map(|q| q.double_game_end)), Some(&bytes));
				}
				match common::slp_write(&game2) {
					Ok(w) if w == bytes => out.count("lossless_trips", 1),
					Ok(w) => out.violate(format!("trip-differs;comp={}", comp.name()), format!("{} comp={}: {} [{}]", desc, comp.name(), common::first_diff(&bytes, &w), common::locate(&truth, (0..w.len().min(bytes.len())).find(|&i| w[i] != bytes[i]).unwrap_or(0))), Some(&bytes)),
					Err(f) => out.violate(format!("step=slp_write;{}", f.sig()), format!("{}: {}", desc, f.text()), Some(&bytes)),
				}
			}
		}
		if idx % 40 == 0 {
			out.sample = Some(json!({"case": idx, "input": desc, "triples": out.evals, "observed": if out.violations.is_empty() { "slp->slpp->slp identical for all compressions; hash/quirks preserved" } else { "FAILED" }}));
		}
		out
	}
}
