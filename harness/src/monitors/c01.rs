//! C01: .slp -> game -> .slp is the identity on well-formed files.

use crate::common::{self, Space};
use crate::driver::{Lane, LaneKind, CaseOut, Ctx, Monitor, Tier};
use crate::{gen, model};
use serde_json::json;

pub struct C01 {
	quick: Space,
	thorough: Space,
	fixtures: Vec<(String, Vec<u8>)>,
}

impl C01 {
	pub fn new() -> Self {
		C01 { quick: Space::new(false), thorough: Space::new(true), fixtures: common::fixtures() }
	}
	fn space(&self, t: Tier) -> &Space {
		t.pick(&self.quick, &self.thorough)
	}
}

/// Generate case `idx` of the shared space: (description, bytes, truth, classes).
pub fn case_input(space: &Space, fixtures: &[(String, Vec<u8>)], seed: u64, idx: usize, out: &mut CaseOut) -> Option<(String, Vec<u8>, model::Model)> {
	if idx < fixtures.len() {
		let (name, bytes) = &fixtures[idx];
		match model::parse(bytes) {
			Ok(m) => {
				if let Err(e) = model::well_formed(&m) {
					// e.g. unknown_event.slp: outside the canonical space of C01/C02
					out.observe("fixtures_outside_canonical_space", format!("{}: {}", name, e));
					return None;
				}
				out.class(format!("fixture v{}.{}", m.version.0, m.version.1));
				Some((format!("fixture {}", name), bytes.clone(), m))
			}
			Err(e) => {
				out.inconclusive.push(format!("reference model cannot parse fixture {}: {}", name, e));
				None
			}
		}
	} else {
		let (spec, mut rng) = space.spec(idx - fixtures.len(), seed);
		let built = gen::build(&spec, &mut rng);
		// certify the generator: the independent model must read back exactly
		// the ground truth, and the file must be canonical well-formed
		match model::parse(&built.bytes) {
			Ok(m) if m == built.truth => {}
			Ok(_) => {
				out.inconclusive.push(format!("generator/model disagree on {}", spec.describe()));
				return None;
			}
			Err(e) => {
				out.inconclusive.push(format!("model rejects generated file ({}): {}", e, spec.describe()));
				return None;
			}
		}
		if let Err(e) = model::well_formed(&built.truth) {
			out.inconclusive.push(format!("generated file not canonical ({}): {}", e, spec.describe()));
			return None;
		}
		for c in common::spec_classes(&spec) {
			out.class(c);
		}
		Some((spec.describe(), built.bytes, built.truth))
	}
}

/// number of boundary-straddling cases (quick, thorough)
const N_BOUNDARY: (usize, usize) = (192, 1536);

impl Monitor for C01 {
	fn id(&self) -> &'static str {
		"C01"
	}
	fn rule(&self) -> String {
		"cases = repository fixtures + deterministic sweep (every (major,minor) 0.1..3.16 with a base shape; every distinct layout x shape matrix of port sets/ICs/presence patterns/rollbacks/items/gecko/end/metadata) + VERIF_SEED-driven random well-formed specs; every payload field carries random bits (1/8 special patterns: NaN payloads, inf, sign bit, all ones). A case is non-trivial when the reference model re-parses the generated file to the generator's ground truth; distinct = distinct coverage classes (layout, regime x port mask, regime x absence x rollback x items x frame-count class, gecko x ends x metadata). A family of boundary cases places the first Game End, the second Game End of a doubled end, or the start of the metadata 0..7 bytes before a multiple of 4/8/64 KiB of file offset (frame and item counts solved for), where a reader-side buffer of that size would be refilled. A family of concurrent cases runs 6 threads x 12 round trips (both formats, hash on/off) at once in one process and requires every thread to get the single-threaded result. Every 4th case is preceded by a (failing) read of a truncated copy on the same thread. Oracle: write(read(x)) == x byte for byte, into a plain buffer and into a sink that accepts only 1/3/7/100/4096 bytes per call; a sink that fails after k bytes must make the write return Err.".into()
	}
	fn assumptions(&self) -> Vec<String> {
		vec!["well-formedness is defined by the harness's hand-transcribed spec tables (spec.rs), pinned against the payload tables of the repository's real fixtures".into(), "frame field contents are sampled, not enumerated".into()]
	}
	fn lanes(&self, _tier: Tier) -> Vec<Lane> {
		vec![Lane { kind: LaneKind::Miri, name: "roundtrip", shards: (0..25).collect(), nshards: 25 }]
	}
	fn n_cases(&self, ctx: &Ctx) -> usize {
		self.fixtures.len() + self.space(ctx.tier).len() + ctx.tier.pick(N_BOUNDARY.0, N_BOUNDARY.1) + ctx.tier.pick(24, 400)
	}
	fn min_classes(&self, tier: Tier) -> usize {
		tier.pick(60, 100)
	}
	fn run(&self, ctx: &Ctx, idx: usize) -> CaseOut {
		let mut out = CaseOut::default();
		let n_main = self.fixtures.len() + self.space(ctx.tier).len();
		let n_boundary = ctx.tier.pick(N_BOUNDARY.0, N_BOUNDARY.1);
		if idx >= n_main + n_boundary {
			return self.concurrent_case(ctx, idx - n_main - n_boundary);
		}
		let input = if idx >= n_main {
			// structural elements straddling multiples of 4/8/64 KiB of file offset
			common::boundary_case(idx - n_main, ctx.seed, &mut out)
		} else {
			case_input(self.space(ctx.tier), &self.fixtures, ctx.seed, idx, &mut out)
		};
		let Some((desc, bytes, truth)) = input else { return out };
		out.evals = 1;
		out.count("bytes_in", bytes.len() as u64);
		out.count("frames", truth.frames.len() as u64);
		// history: every 4th case first reads a truncated copy of the file on the same thread (it
		// fails); nothing of that failed parse may leak into the read that follows
		if idx % 4 == 1 && bytes.len() > 64 {
			let mut r0 = crate::rng::Rng::derive(ctx.seed, 0xC010 ^ idx as u64);
			let cut = if idx % 8 == 1 { truth.events.get(r0.below(truth.events.len().max(1))).map_or(bytes.len() / 2, |e| e.1 + 1 + r0.below(e.2.max(1))) } else { r0.range(16, bytes.len() - 1) };
			// through the instrumented source, so that an EOF-polling loop cannot block this check
			if common::slp_read_src(crate::iofault::Src::of(&bytes[..cut.min(bytes.len() - 1)]), false, false).is_err() {
				out.count("truncated_copy_rejected_before_real_read", 1);
			}
		}
		let game = match common::slp_read(&bytes, false, false) {
			Ok(g) => g,
			Err(f) => {
				out.violate(format!("read-failed;{}", f.sig()), format!("{}: read of well-formed file failed: {}", desc, f.text()), Some(&bytes));
				return out;
			}
		};
		let written = match common::slp_write(&game) {
			Ok(w) => w,
			Err(f) => {
				out.violate(format!("write-failed;{}", f.sig()), format!("{}: write failed: {}", desc, f.text()), Some(&bytes));
				return out;
			}
		};
		if written != bytes {
			let n = written.len().min(bytes.len());
			let i = (0..n).find(|&i| written[i] != bytes[i]).unwrap_or(n);
			let place = if i >= 11 && i < 15 { "declared raw length".to_string() } else { common::locate(&truth, i) };
			let place_class = if i >= 11 && i < 15 { "declared-raw-length".to_string() } else { truth.events.iter().find(|(_, at, len)| i >= *at && i <= at + len).map_or("outside-events".into(), |(c, _, _)| format!("event-{:#04x}", c)) };
			out.violate(format!("roundtrip-differs;{}", place_class), format!("{}: {} [{}]", desc, common::first_diff(&bytes, &written), place), Some(&bytes));
		}
		// write side of the environment: a sink that accepts only a few bytes per call must still
		// receive the identical file, and a sink that fails must make the write fail
		if bytes.len() < 300_000 {
			let k = [1usize, 3, 7, 100, 4096][idx % 5];
			let mut sk = crate::iofault::Sink::short(k);
			// and, for every other case, every 5th write call is answered by ErrorKind::Interrupted
			sk.interrupt_every = if idx % 2 == 0 { 5 } else { 0 };
			let (r, sink) = common::slp_write_sink(&game, sk);
			out.evals += 1;
			match r {
				Ok(()) if sink.buf == bytes => out.count("short_write_sink_identical", 1),
				Ok(()) => out.violate("short-write-sink-differs", format!("{}: written through a sink accepting {} bytes per call the output differs: {}", desc, k, common::first_diff(&bytes, &sink.buf)), Some(&bytes)),
				Err(f) => out.violate(format!("short-write-sink-failed;{}", f.sig()), format!("{}: {}", desc, f.text()), Some(&bytes)),
			}
			let mut rng = crate::rng::Rng::derive(ctx.seed, 0xC01F ^ idx as u64);
			let cut = match idx % 4 {
				0 => bytes.len() - 1,
				1 => rng.below(bytes.len()),
				2 => bytes.len().saturating_sub(rng.range(1, 9000)),
				_ => rng.below(16),
			};
			let (r, sink) = common::slp_write_sink(&game, crate::iofault::Sink::failing(cut));
			out.evals += 1;
			match r {
				Err(_) => out.count("failing_sink_surfaced_as_err", 1),
				Ok(()) => out.violate("write-error-swallowed", format!("{}: the sink failed after {} of {} bytes (failed={}) but slippi::write returned Ok", desc, cut, bytes.len(), sink.failed), Some(&bytes)),
			}
		}
		if idx % 50 == 0 {
			out.sample = Some(json!({"case": idx, "input": desc, "bytes": bytes.len(), "rows": truth.frames.len(), "observed": if written == bytes { "write(read(x)) == x" } else { "DIFFERS" }}));
		}
		out
	}
}

impl C01 {
	/// Thread schedules: the library has no shared state today, so several threads of one
	/// process reading and writing different replays (and both formats) at the same time must
	/// each get exactly what a single-threaded run gets. 6 threads x 12 round trips per case;
	/// the interleaving is whatever the OS scheduler produces (the threads start together on a
	/// barrier and yield between steps).
	fn concurrent_case(&self, ctx: &Ctx, k: usize) -> CaseOut {
		use std::sync::{Arc, Barrier};
		let mut out = CaseOut::default();
		let space = self.space(ctx.tier);
		let nthreads = 6;
		let per = 12;
		let mut inputs: Vec<Vec<(String, Vec<u8>, bool)>> = vec![];
		for t in 0..nthreads {
			let mut v = vec![];
			for j in 0..per {
				let mut sink = CaseOut::default();
				let i = self.fixtures.len() + (k * 7919 + t * 104729 + j * 1299709) % space.len();
				if let Some((d, b, m)) = case_input(space, &self.fixtures, ctx.seed, i, &mut sink) {
					let nports = crate::view::occupied_chars(&m.start).iter().filter(|c| !c.1).count();
					let slpp_ok = super::c14::empty_struct_class(m.v(), nports) == "other";
					if b.len() < 200_000 {
						v.push((d, b, slpp_ok));
					}
				}
			}
			inputs.push(v);
		}
		let barrier = Arc::new(Barrier::new(nthreads));
		let mut handles = vec![];
		for (t, v) in inputs.into_iter().enumerate() {
			let bar = barrier.clone();
			handles.push(std::thread::spawn(move || {
				crate::driver::install_panic_hook();
				let mut problems: Vec<String> = vec![];
				let mut done = 0u64;
				bar.wait();
				for (j, (d, b, slpp_ok)) in v.iter().enumerate() {
					let r = common::slp_read(b, false, (t + j) % 2 == 0).and_then(|g| {
						std::thread::yield_now();
						let w = common::slp_write(&g)?;
						Ok((g, w))
					});
					match r {
						Ok((g, w)) => {
							if &w != b {
								problems.push(format!("thread {}: {}: round trip differs under concurrency: {}", t, d, common::first_diff(b, &w)));
							}
							if *slpp_ok && (t + j) % 3 == 0 {
								std::thread::yield_now();
								match common::slpp_write(g, common::Comp::ALL[(t + j) % 3]).and_then(|a| common::slpp_read(&a, false)).and_then(|g2| common::slp_write(&g2)) {
									Ok(w2) if &w2 == b => {}
									Ok(_) => problems.push(format!("thread {}: {}: .slpp trip differs under concurrency", t, d)),
									Err(f) => problems.push(format!("thread {}: {}: .slpp trip under concurrency: {}", t, d, f.text())),
								}
							}
						}
						Err(f) => problems.push(format!("thread {}: {}: {}", t, d, f.text())),
					}
					done += 1;
				}
				(done, problems)
			}));
		}
		for h in handles {
			match h.join() {
				Ok((done, problems)) => {
					out.evals += done;
					for p in problems.into_iter().take(2) {
						out.violate("concurrent-use-differs", p, None);
					}
				}
				Err(_) => out.violate("concurrent-use-panic", "a thread of the concurrent case panicked outside the guards".to_string(), None),
			}
		}
		out.class(format!("concurrent|{}-threads", nthreads));
		out.class("concurrent|mixed-formats".to_string());
		out.sample = Some(json!({"case": "concurrent", "threads": nthreads, "round_trips": out.evals}));
		out
	}
}
