//! C03: every decoded frame field equals the bytes at its spec offset.

use super::c01::case_input;
use crate::common::{self, Space};
use crate::driver::{guard, CaseOut, Ctx, Monitor, Tier};
use crate::view;
use serde_json::json;

pub struct C03 {
	quick: Space,
	thorough: Space,
	fixtures: Vec<(String, Vec<u8>)>,
}

impl C03 {
	pub fn new() -> Self {
		C03 { quick: Space::new(false), thorough: Space::new(true), fixtures: common::fixtures() }
	}
}

impl Monitor for C03 {
	fn id(&self) -> &'static str {
		"C03"
	}
	fn rule(&self) -> String {
		"same workload space as C01 (all 784 (major,minor) pairs incl. both neighbours of every field's introduction version, every distinct layout x shapes, random histories), every payload field filled with random bits so each (event, field) value is almost surely unique. Oracle: for every field the hand-transcribed spec table lists for the version, the column exposed by peppi (read through the public column structs AND through the name-addressable Arrow struct array) holds, in every row where the character/event is present, the big-endian value at the spec offset of that event's payload; fields are present iff version >= since; types match. distinct = (layout, event kind, field) triples actually compared plus workload classes.".into()
	}
	fn assumptions(&self) -> Vec<String> {
		vec!["spec.rs is the oracle: hand-transcribed from the Slippi SPEC, internally checked for contiguity and pinned to real fixtures' payload sizes".into(), "semantic meaning of fields is out of scope; only placement/width/endianness/version gating".into()]
	}
	fn n_cases(&self, ctx: &Ctx) -> usize {
		self.fixtures.len() + ctx.tier.pick(&self.quick, &self.thorough).len()
	}
	fn min_classes(&self, tier: Tier) -> usize {
		tier.pick(300, 400)
	}
	fn run(&self, ctx: &Ctx, idx: usize) -> CaseOut {
		let mut out = CaseOut::default();
		let Some((desc, bytes, truth)) = case_input(ctx.tier.pick(&self.quick, &self.thorough), &self.fixtures, ctx.seed, idx, &mut out) else { return out };
		out.evals = 1;
		let game = match common::slp_read(&bytes, false, false) {
			Ok(g) => g,
			Err(f) => {
				out.violate(format!("read-failed;{}", f.sig()), format!("{}: {}", desc, f.text()), Some(&bytes));
				return out;
			}
		};
		let chars = view::occupied_chars(&truth.start);
		let exp = view::expected_cols(&truth, &chars);
		let layout = crate::spec::layout_versions().into_iter().filter(|l| crate::spec::gte(truth.v(), *l)).last().unwrap_or((0, 1));
		let mut compared = 0u64;
		for (path, (_, col)) in &exp.leaves {
			let n = col.iter().filter(|x| x.is_some()).count() as u64;
			if n > 0 {
				compared += n;
				// class: (layout, field) — strip the port so classes stay meaningful
				let generic = path.split('.').filter(|c| !(c.len() == 2 && c.starts_with('P'))).collect::<Vec<_>>().join(".");
				out.class(format!("{}.{}:{}", layout.0, layout.1, generic));
			}
		}
		out.count("field_values_compared", compared);
		let cols = view::cols_imm(&game.frames);
		let d = view::diff_expected(&exp, &cols, "columns", 4);
		for msg in &d.fields {
			out.violate(format!("field-mismatch;{}", sig_of(msg)), format!("{}: {}", desc, msg), Some(&bytes));
		}
		// second route: Arrow, addressed by name
		let ports = common::ports_of(&game.start);
		let version = game.start.slippi.version;
		match guard(move || game.frames.into_struct_array(version, &ports)) {
			Ok(arr) => match view::cols_arrow(&arr) {
				Ok(ac) => {
					out.count("arrow_views", 1);
					let d = view::diff_expected(&exp, &ac, "arrow", 4);
					for msg in &d.fields {
						out.violate(format!("field-mismatch;{}", sig_of(msg)), format!("{}: {}", desc, msg), Some(&bytes));
					}
				}
				Err(e) => out.violate("arrow-walk-failed", format!("{}: {}", desc, e), Some(&bytes)),
			},
			Err(_) => {
				// zero-field struct panic (no End fields before 3.7 / no ports):
				// reported under C02/C14, not a field-placement question
				out.count("arrow_view_unavailable", 1);
			}
		}
		if idx % 60 == 0 {
			out.sample = Some(json!({"case": idx, "input": desc, "fields_in_layout": exp.leaves.len(), "values_compared": compared, "observed": if d.fields.is_empty() { "all fields at spec offsets" } else { "MISMATCH" }}));
		}
		out
	}
}

/// signature = route + field path with port stripped + kind of mismatch
pub fn sig_of(msg: &str) -> String {
	let mut words = msg.split_whitespace();
	let route = words.next().unwrap_or("").trim_end_matches(':');
	let kind = if msg.contains("missing") {
		"missing"
	} else if msg.contains("spec says absent") {
		"unexpected"
	} else if msg.contains("has type") {
		"type"
	} else {
		"value"
	};
	let path = msg.split_whitespace().find(|w| w.contains('.') || w.starts_with("id")).unwrap_or("");
	let path = path.split('[').next().unwrap_or("");
	let generic = path.split('.').filter(|c| !(c.len() == 2 && c.starts_with('P'))).collect::<Vec<_>>().join(".");
	format!("{};{};{}", route, kind, generic)
}
