//! C15: rollback de-duplication marks all but the first/last occurrence of each id.

use crate::driver::{guard, norm_msg, CaseOut, Ctx, Monitor, Tier};
use crate::rng::Rng;
use arrow2::array::PrimitiveArray;
use peppi::frame::{immutable::Frame, Rollbacks};
use serde_json::json;

pub struct C15;

fn frame_of(ids: &[i32]) -> Frame {
	Frame { id: PrimitiveArray::from_vec(ids.to_vec()), ports: vec![], start: None, end: None, item_offset: None, item: None }
}

fn oracle(ids: &[i32], first: bool) -> Vec<bool> {
	(0..ids.len()).map(|i| if first { ids[..i].contains(&ids[i]) } else { ids[i + 1..].contains(&ids[i]) }).collect()
}

fn oracle_fast(ids: &[i32], first: bool) -> Vec<bool> {
	let mut seen = std::collections::HashSet::new();
	let mut out = vec![false; ids.len()];
	let order: Vec<usize> = if first { (0..ids.len()).collect() } else { (0..ids.len()).rev().collect() };
	for i in order {
		out[i] = !seen.insert(ids[i]);
	}
	out
}

fn check(out: &mut CaseOut, ids: &[i32], class: &str) {
	check_modes(out, ids, class, &[true, false]);
}

fn check_modes(out: &mut CaseOut, ids: &[i32], class: &str, modes: &[bool]) {
	let f = frame_of(ids);
	for (name, keep, first) in [("ExceptFirst", Rollbacks::ExceptFirst, true), ("ExceptLast", Rollbacks::ExceptLast, false)] {
		if !modes.contains(&first) {
			continue;
		}
		out.evals += 1;
		let want = if ids.len() <= 64 { oracle(ids, first) } else { oracle_fast(ids, first) };
		let head: Vec<i32> = ids.iter().take(16).cloned().collect();
		match guard(|| f.rollbacks(keep)) {
			Ok(got) => {
				if got != want {
					let i = got.iter().zip(want.iter()).position(|(a, b)| a != b).unwrap_or(got.len().min(want.len()));
					out.violate(format!("mask-wrong;{}", name), format!("ids (len {}) {:?}..: {} mask differs at row {} (len {} vs {})", ids.len(), head, name, i, got.len(), want.len()), None);
				}
				let unmarked = got.iter().filter(|b| !**b).count();
				let mut d: Vec<i32> = ids.to_vec();
				d.sort();
				d.dedup();
				if unmarked != d.len() {
					out.violate(format!("unmarked-count;{}", name), format!("ids {:?}..: {} unmarked rows for {} distinct ids", head, unmarked, d.len()), None);
				}
			}
			Err(p) => {
				let big = ids.iter().any(|x| *x > i32::MAX - 123);
				out.violate(format!("panic;{};ids-above-i32max-123={}", norm_msg(&p.msg), big), format!("ids (len {}) {:?}..: rollbacks({}) panicked at {}: {}", ids.len(), head, name, p.loc, p.msg), None)
			}
		}
	}
	out.class(class.to_string());
}

/// Call history on one thread: the mask of a game must not depend on which games were looked at
/// before. Three large games (dense ids with rollbacks; two overlapping runs; sparse high ids) are
/// re-evaluated again and again with g-1 calls on tiny games in between, for EVERY g from 1 to
/// 600 (thorough: 1300), so that the distance in calls between two evaluations of a large game
/// takes every value in that range (a counter, stamp or pool inside the library that wraps or is
/// recycled after k calls shows at distance k). Expected masks come from the definition.
fn history_case(ctx: &Ctx) -> CaseOut {
	let mut out = CaseOut::default();
	let mut rng = Rng::derive(ctx.seed, 0xC15B);
	let mut bigs: Vec<Vec<i32>> = vec![];
	let mut a = vec![];
	let mut id = -123i32;
	while a.len() < 3000 {
		a.push(id);
		id = if rng.chance(1, 5) { (id - rng.range(0, 7) as i32).max(-123) } else { id + 1 };
	}
	bigs.push(a);
	bigs.push((0..1500).chain(500..2000).collect());
	bigs.push((0..800).map(|i| 1_000_000 + (i % 500) * 3).collect());
	let gaps = ctx.tier.pick(600usize, 1300);
	for g in 1..=gaps {
		for j in 0..g - 1 {
			let n = rng.range(0, 8);
			let small: Vec<i32> = (0..n).map(|_| -123 + rng.below(6) as i32).collect();
			check_modes(&mut out, &small, "history|small-games-between", &[(g + j) % 2 == 0]);
		}
		check(&mut out, &bigs[g % 3], "history|large-game-again");
		if out.violations.len() >= 2 {
			break;
		}
	}
	for v in out.violations.iter_mut() {
		v.sig = format!("{};after-other-games", v.sig);
	}
	out.count("calls_in_history_case", out.evals);
	out.sample = Some(json!({"case": "history", "distances_covered": gaps, "calls": out.evals}));
	out
}

impl Monitor for C15 {
	fn id(&self) -> &'static str {
		"C15"
	}
	fn rule(&self) -> String {
		"Frame values are built directly from id vectors (public fields) and Frame::rollbacks is compared with the definition (row marked iff an earlier / later row has the same id; exactly one unmarked row per distinct id). Exhaustive: every sequence of length 0..=7 over the alphabet {-123,-122,-121,-120} (quick: length <= 6). Random: lengths up to 20000 with monotone/rollback/repeat/gap/shuffled patterns, ids from -123 to 2^24, games whose ids start at 70 000 .. 2^30 with rollbacks (sparse, high ids), and sequences of up to 300 rows touching the boundary ids i32::MAX-124..=i32::MAX. One history case re-evaluates three large games with g-1 calls on tiny games in between for every g in 1..600 (thorough 1300) on one thread: the mask must not depend on the calls made before. distinct = pattern classes x length classes.".into()
	}
	fn n_cases(&self, ctx: &Ctx) -> usize {
		ctx.tier.pick(64 + 200, 256 + 4000) + 1
	}
	fn min_classes(&self, _tier: Tier) -> usize {
		8
	}
	fn run(&self, ctx: &Ctx, idx: usize) -> CaseOut {
		let mut out = CaseOut::default();
		let nex = ctx.tier.pick(64, 256);
		if idx < nex {
			// exhaustive part, split by the first 3 (quick) / 4 (thorough) symbols
			let maxlen = ctx.tier.pick(6usize, 7);
			let plen = ctx.tier.pick(3usize, 4);
			let prefix: Vec<i32> = (0..plen).map(|k| -123 + ((idx >> (2 * k)) & 3) as i32).collect();
			if idx == 0 {
				// all sequences shorter than the prefix length
				for len in 0..plen {
					for code in 0..(1usize << (2 * len)) {
						let ids: Vec<i32> = (0..len).map(|k| -123 + ((code >> (2 * k)) & 3) as i32).collect();
						check(&mut out, &ids, &format!("exhaustive|len={}", len));
					}
				}
			}
			for len in plen..=maxlen {
				let rest = len - plen;
				for code in 0..(1usize << (2 * rest)) {
					let mut ids = prefix.clone();
					ids.extend((0..rest).map(|k| -123 + ((code >> (2 * k)) & 3) as i32));
					check(&mut out, &ids, &format!("exhaustive|len={}", len));
				}
			}
			if idx == 5 {
				out.sample = Some(json!({"case": idx, "kind": "exhaustive", "prefix": prefix, "sequences": out.evals / 2}));
			}
			return out;
		}
		if idx + 1 == self.n_cases(ctx) {
			return history_case(ctx);
		}
		let mut rng = Rng::derive(ctx.seed, idx as u64);
		let pattern = (idx - nex) % 8;
		let n = match rng.below(4) {
			0 => rng.range(0, 8),
			1 => rng.range(8, 200),
			2 => rng.range(200, 3000),
			_ => rng.range(3000, 20000),
		};
		let mut ids: Vec<i32> = Vec::with_capacity(n);
		let name;
		match pattern {
			0 => {
				name = "monotone";
				ids.extend((0..n).map(|i| -123 + i as i32));
			}
			1 => {
				name = "rollbacks";
				let mut id = -123i32;
				while ids.len() < n {
					ids.push(id);
					if rng.chance(1, 5) {
						id = (id - rng.range(0, 7) as i32).max(-123);
					} else {
						id += 1;
					}
				}
			}
			2 => {
				name = "gaps";
				let mut id = -123i32;
				while ids.len() < n {
					ids.push(id);
					id += *rng.pick(&[0i32, 1, 1, 2, 10, 1000]);
				}
			}
			3 => {
				name = "random-small-alphabet";
				let k = rng.range(1, 9) as i32;
				ids.extend((0..n).map(|_| -123 + rng.below(k as usize) as i32));
			}
			4 => {
				name = "random-wide";
				ids.extend((0..n.min(400)).map(|_| -123 + rng.below(1 << 24) as i32));
			}
			5 => {
				name = "high-base-rollbacks";
				// sparse/high ids (a game whose ids start far from -123) with netplay-style rollbacks
				let mut id = *rng.pick(&[70_000i32, 200_000, 1 << 24, 1 << 30, i32::MAX - 40_000]);
				let m = n.min(3000).max(30);
				while ids.len() < m {
					ids.push(id);
					if rng.chance(1, 4) {
						id -= rng.range(0, 7) as i32;
					} else {
						id += 1;
					}
				}
			}
			6 => {
				name = "shuffled-repeats";
				let base = *rng.pick(&[-123i32, 100_000, i32::MAX - 5_000]);
				let m = n.min(2000).max(25);
				ids.extend((0..m).map(|_| base + rng.below(m / 2 + 1) as i32));
			}
			_ => {
				name = "top-boundary";
				// ids near i32::MAX: "ids at least -123" has no upper bound
				let base = i32::MAX - 124;
				let m = if rng.chance(1, 2) { n.min(12) } else { n.min(300).max(25) };
				ids.extend((0..m).map(|_| base + rng.below(125) as i32));
			}
		}
		let lc = match ids.len() {
			0 => "0",
			1..=7 => "1-7",
			8..=199 => "8-199",
			200..=2999 => "200-2999",
			_ => "3000+",
		};
		check(&mut out, &ids, &format!("{}|len={}", name, lc));
		if idx % 40 == 0 {
			out.sample = Some(json!({"case": idx, "pattern": name, "len": ids.len(), "head": ids.iter().take(12).collect::<Vec<_>>()}));
		}
		out
	}
}
