//! C20: version comparison, parsing and display are mutually consistent and total.

use crate::driver::{guard, CaseOut, Ctx, Monitor, Tier};
use crate::rng::Rng;
use peppi::io::{peppi as slpp, slippi};
use serde_json::json;
use std::str::FromStr;

pub struct C20;

/// thresholds used as version gates in the code base (and the spec)
const THRESHOLDS: [(u8, u8); 26] = [(0, 1), (0, 2), (1, 0), (1, 2), (1, 3), (1, 4), (1, 5), (2, 0), (2, 1), (2, 2), (3, 0), (3, 2), (3, 3), (3, 5), (3, 6), (3, 7), (3, 8), (3, 9), (3, 10), (3, 11), (3, 12), (3, 13), (3, 14), (3, 15), (3, 16), (3, 17)];

/// Reference classification of a version string.
#[derive(Debug, PartialEq, Eq)]
enum Want {
	/// canonical: must be accepted with exactly this value
	Accept(u8, u8, u8),
	/// debatable spelling of this numeric value (leading '+', leading zeros):
	/// may be rejected; if accepted must have this value
	Debatable(u8, u8, u8),
	Reject,
}

fn reference(s: &str) -> Want {
	let parts: Vec<&str> = s.split('.').collect();
	if parts.len() != 3 {
		return Want::Reject;
	}
	let mut vals = [0u8; 3];
	let mut debatable = false;
	for (i, p) in parts.iter().enumerate() {
		let digits = if let Some(rest) = p.strip_prefix('+') {
			debatable = true;
			rest
		} else {
			p
		};
		if digits.is_empty() || !digits.bytes().all(|b| b.is_ascii_digit()) {
			return Want::Reject;
		}
		if digits.len() > 1 && digits.starts_with('0') {
			debatable = true;
		}
		// value without overflow
		let trimmed = digits.trim_start_matches('0');
		if trimmed.len() > 3 {
			return Want::Reject;
		}
		let v: u32 = if trimmed.is_empty() { 0 } else { trimmed.parse().unwrap() };
		if v > 255 {
			return Want::Reject;
		}
		vals[i] = v as u8;
	}
	if debatable {
		Want::Debatable(vals[0], vals[1], vals[2])
	} else {
		Want::Accept(vals[0], vals[1], vals[2])
	}
}

const FIXED: &[&str] = &[
	"", ".", "..", "...", "1", "1.2", "1.2.3.4", "1..3", ".1.2", "1.2.", ".1.2.3", "1.2.3.", "a.b.c", "1.2.x", "x.2.3", "256.0.0", "1.256.3", "1.2.256", "-1.2.3", "1.-2.3", "1.2.-3", " 1.2.3", "1.2.3 ", "1. 2.3", "1,2,3", "1.2.3\n",
	"\u{ff11}.2.3", "1.2.\u{0663}", "0x1.2.3", "1e1.2.3", "+1.2.3", "1.+2.3", "1.2.+3", "++1.2.3", "+.2.3", "01.2.3", "1.02.3", "1.2.003", "00.0.0", "000.000.000", "0255.0.0", "999999999999999999999.1.1", "1.2.3.4.5", "3.16.0", "0.0.0", "255.255.255", "3_16_0", "3.16", "v3.16.0", "3.16.0-beta", "1.2.3\0", "\u{0}1.2.3", "1.2.٣",
];

/// Long inputs (30-90 bytes) with multi-byte characters at every alignment.
fn gen_long_string(rng: &mut Rng) -> String {
	const ATOMS: &[&str] = &["1", "25", ".", "x", "é", "あ", "😀", "\u{ff11}", "0", "9", " ", "-"];
	let target = rng.range(30, 90);
	let mut s = String::new();
	while s.len() < target {
		s.push_str(*rng.pick(ATOMS));
	}
	s
}

fn gen_string(rng: &mut Rng) -> String {
	if rng.chance(1, 8) {
		return gen_long_string(rng);
	}
	const ALPHA: &[&str] = &["0", "1", "2", "5", "9", "25", "255", "256", "30", ".", ".", ".", ".", "+", "-", " ", "a", "", "00", "\u{ff10}"];
	let n = rng.range(0, 9);
	(0..n).map(|_| *rng.pick(ALPHA)).collect()
}

fn check_string(out: &mut CaseOut, s: &str) {
	let want = reference(s);
	for (ty, got) in [
		("slippi", guard(|| slippi::Version::from_str(s).ok().map(|v| (v.0, v.1, v.2)))),
		("peppi", guard(|| slpp::Version::from_str(s).ok().map(|v| (v.0, v.1, v.2)))),
	] {
		out.evals += 1;
		let got = match got {
			Ok(g) => g,
			Err(p) => {
				out.violate(format!("parse-panic;{}", ty), format!("{}::Version::from_str({:?}) panicked: {}", ty, s, p.msg), None);
				continue;
			}
		};
		match (&want, got) {
			(Want::Accept(a, b, c), Some(g)) if g == (*a, *b, *c) => out.count("accepted_canonical", 1),
			(Want::Accept(..), g) => out.violate(format!("canonical-string-misparsed;{}", ty), format!("{}::Version::from_str({:?}) = {:?}, want {:?}", ty, s, g, want), None),
			(Want::Debatable(..), None) => out.count("debatable_rejected", 1),
			(Want::Debatable(a, b, c), Some(g)) if g == (*a, *b, *c) => out.count("debatable_accepted_with_numeric_value", 1),
			(Want::Debatable(..), Some(g)) => out.violate(format!("debatable-string-wrong-value;{}", ty), format!("{}::Version::from_str({:?}) = {:?}, want {:?}", ty, s, g, want), None),
			(Want::Reject, None) => out.count("malformed_rejected", 1),
			(Want::Reject, Some(g)) => out.violate(format!("malformed-string-accepted;{}", ty), format!("{}::Version::from_str({:?}) accepted as {:?}", ty, s, g), None),
		}
	}
}

fn check_roundtrip(out: &mut CaseOut, v: (u8, u8, u8)) {
	out.evals += 1;
	let s1 = slippi::Version(v.0, v.1, v.2).to_string();
	let s2 = slpp::Version(v.0, v.1, v.2).to_string();
	let want = format!("{}.{}.{}", v.0, v.1, v.2);
	if s1 != want || s2 != want {
		out.violate("display", format!("Display of {:?} = {:?} / {:?}, want {:?}", v, s1, s2, want), None);
		return;
	}
	let p1 = slippi::Version::from_str(&s1).ok().map(|x| (x.0, x.1, x.2));
	let p2 = slpp::Version::from_str(&s2).ok().map(|x| (x.0, x.1, x.2));
	if p1 != Some(v) {
		out.violate("display-parse-roundtrip;slippi", format!("parse(display({:?})) = {:?}", v, p1), None);
	}
	if p2 != Some(v) {
		out.violate("display-parse-roundtrip;peppi", format!("parse(display({:?})) = {:?}", v, p2), None);
	}
}

fn check_cmp(out: &mut CaseOut, v: (u8, u8), t: (u8, u8), patch: u8) {
	out.evals += 1;
	let ver = std::hint::black_box(slippi::Version(v.0, v.1, patch));
	let want = v >= t;
	let (g, l) = (ver.gte(std::hint::black_box(t.0), std::hint::black_box(t.1)), ver.lt(std::hint::black_box(t.0), std::hint::black_box(t.1)));
	if g != want || l == g {
		out.violate("gte-lt", format!("Version({},{},{}).gte({},{}) = {}, lt = {}; lexicographic >= is {}", v.0, v.1, patch, t.0, t.1, g, l, want), None);
	}
}

impl Monitor for C20 {
	fn id(&self) -> &'static str {
		"C20"
	}
	fn rule(&self) -> String {
		"gte/lt are compared with the lexicographic definition: quick = all 2^16 (major,minor) x the 26 gate thresholds used in the code +-1 in each component, plus 200000 seeded random (version, threshold) pairs; thorough = all 2^16 x 2^16 pairs (exhaustive). Display/parse round trip for both Version types: quick = all (major,minor,0), all (0,0,patch), (255,255,patch) and 100000 random triples; thorough = all 2^24 triples. Rejection: a fixed list of malformed strings plus generated strings over a digit/dot/sign/space/letter alphabet (1 in 8 is 30-90 bytes long with multi-byte characters at every alignment), classified by a reference grammar (canonical -> must parse to that value; leading '+' or leading zeros -> debatable: may be rejected, value must be right if accepted; everything else -> must be rejected). distinct = (check kind, outcome) classes.".into()
	}
	fn exhaustive(&self, tier: Tier) -> bool {
		tier == Tier::Thorough
	}
	fn n_cases(&self, ctx: &Ctx) -> usize {
		// 256 cases, one per major
		ctx.tier.pick(256, 256) + 16
	}
	fn min_classes(&self, _tier: Tier) -> usize {
		4
	}
	fn run(&self, ctx: &Ctx, idx: usize) -> CaseOut {
		let mut out = CaseOut::default();
		let mut rng = Rng::derive(ctx.seed, 0xC20 + idx as u64);
		if idx < 256 {
			let major = idx as u8;
			match ctx.tier {
				Tier::Quick => {
					for minor in 0..=255u8 {
						for t in THRESHOLDS {
							for (da, db) in [(0i16, 0i16), (0, 1), (0, -1), (1, 0), (-1, 0)] {
								let tt = ((t.0 as i16 + da).clamp(0, 255) as u8, (t.1 as i16 + db).clamp(0, 255) as u8);
								check_cmp(&mut out, (major, minor), tt, minor.wrapping_mul(7));
							}
						}
						check_roundtrip(&mut out, (major, minor, 0));
						check_roundtrip(&mut out, (0, 0, minor));
						check_roundtrip(&mut out, (255, 255, minor));
						check_roundtrip(&mut out, (major, minor, rng.byte()));
					}
					for _ in 0..800 {
						check_cmp(&mut out, (rng.byte(), rng.byte()), (rng.byte(), rng.byte()), rng.byte());
						check_roundtrip(&mut out, (rng.byte(), rng.byte(), rng.byte()));
					}
				}
				Tier::Thorough => {
					for minor in 0..=255u8 {
						for a in 0..=255u8 {
							for b in 0..=255u8 {
								// black_box: the calls must really be executed, not proved away by the optimiser
								let ver = std::hint::black_box(slippi::Version(major, minor, a ^ b));
								let (ta, tb) = (std::hint::black_box(a), std::hint::black_box(b));
								let want = (major, minor) >= (a, b);
								let (g, l) = (ver.gte(ta, tb), ver.lt(ta, tb));
								if g != want || l == g {
									check_cmp(&mut out, (major, minor), (a, b), a ^ b);
								}
							}
						}
						out.evals += 65536;
						for patch in 0..=255u8 {
							check_roundtrip(&mut out, (major, minor, patch));
						}
					}
				}
			}
			out.class("gte-lt|held".to_string());
			out.class("display-parse|held".to_string());
		} else {
			let k = idx - 256;
			if k == 0 {
				for s in FIXED {
					check_string(&mut out, s);
				}
			}
			for _ in 0..ctx.tier.pick(6000, 200000) {
				let s = gen_string(&mut rng);
				check_string(&mut out, &s);
			}
			for (k, _) in out.counters.clone() {
				out.class(format!("strings|{}", k));
			}
			out.sample = Some(json!({"case": idx, "strings": out.evals / 2, "outcomes": out.counters, "examples": (0..5).map(|_| gen_string(&mut rng)).collect::<Vec<_>>()}));
		}
		if idx == 3 {
			out.sample = Some(json!({"case": idx, "major": 3, "evaluations": out.evals, "note": "every (3, minor) against thresholds / all pairs; display-parse round trips"}));
		}
		out
	}
}
