//! C14: Arrow struct array has the per-version schema and converts back losslessly.

use super::c01::case_input;
use crate::common::{self, Space};
use crate::driver::{Lane, LaneKind, guard, norm_msg, CaseOut, Ctx, Monitor, Tier};
use crate::view;
use arrow2::array::Array;
use peppi::frame::immutable::Frame;
use serde_json::json;

pub struct C14 {
	quick: Space,
	thorough: Space,
	fixtures: Vec<(String, Vec<u8>)>,
}

impl C14 {
	pub fn new() -> Self {
		C14 { quick: Space::new(false), thorough: Space::new(true), fixtures: common::fixtures() }
	}
}

/// Input class used to key the known zero-field-struct finding.
pub fn empty_struct_class(v: (u8, u8), nports: usize) -> &'static str {
	if nports == 0 {
		"no-occupied-port"
	} else if crate::spec::gte(v, (3, 0)) && !crate::spec::gte(v, (3, 7)) {
		"frame-end-has-no-fields(v3.0-3.6)"
	} else {
		"other"
	}
}

impl Monitor for C14 {
	fn id(&self) -> &'static str {
		"C14"
	}
	fn rule(&self) -> String {
		"same workload space as C01 (all 784 versions, 81 port/ICs configurations in thorough, random histories). Per case: export frames with Frame::into_struct_array; (1) its data_type tree, rendered as ordered 'path: type' lines, must equal the tree built from the hand-transcribed spec tables (names, nesting, order, primitive types; id, ports.P<n>.leader/follower.pre/post, start >= 2.2, end and item: List<item> >= 3.0); (2) row count = frames, struct validity of each character = presence in the history; (3) every exported leaf equals the in-memory column (accessor table) and the model's expected values; (4) Frame::from_struct_array(array) put back into the game must serialise to the identical .slp. distinct = workload classes + distinct schema trees observed.".into()
	}
	fn lanes(&self, _tier: Tier) -> Vec<Lane> {
		vec![Lane { kind: LaneKind::Miri, name: "roundtrip", shards: (0..25).collect(), nshards: 25 }]
	}
	fn n_cases(&self, ctx: &Ctx) -> usize {
		self.fixtures.len() + ctx.tier.pick(&self.quick, &self.thorough).len()
	}
	fn min_classes(&self, tier: Tier) -> usize {
		tier.pick(60, 100)
	}
	fn run(&self, ctx: &Ctx, idx: usize) -> CaseOut {
		let mut out = CaseOut::default();
		let Some((desc, bytes, truth)) = case_input(ctx.tier.pick(&self.quick, &self.thorough), &self.fixtures, ctx.seed, idx, &mut out) else { return out };
		out.evals = 1;
		let (game, mut game2) = match (common::slp_read(&bytes, false, false), common::slp_read(&bytes, false, false)) {
			(Ok(a), Ok(b)) => (a, b),
			(Err(f), _) | (_, Err(f)) => {
				out.violate(format!("read-failed;{}", f.sig()), format!("{}: {}", desc, f.text()), Some(&bytes));
				return out;
			}
		};
		let version = game.start.slippi.version;
		let ports = common::ports_of(&game.start);
		let chars = view::occupied_chars(&truth.start);
		let exp = view::expected_cols(&truth, &chars);
		let imm = view::cols_imm(&game.frames);
		let nports = ports.len();
		let ports2 = ports.clone();
		let arr = match guard(move || game.frames.into_struct_array(version, &ports2)) {
			Ok(a) => a,
			Err(p) => {
				out.violate(
					format!("into_struct_array-panic;{};class={}", norm_msg(&p.msg), empty_struct_class(truth.v(), nports)),
					format!("{}: Frame::into_struct_array panicked at {}: {}", desc, p.loc, p.msg),
					Some(&bytes),
				);
				return out;
			}
		};
		// (1) schema
		let mut got = vec![];
		view::schema_lines(arr.data_type(), "", &mut got);
		let want = view::expected_schema(truth.v(), &chars);
		if got != want {
			let i = got.iter().zip(want.iter()).position(|(a, b)| a != b).unwrap_or(got.len().min(want.len()));
			out.violate(
				format!("schema;{}", want.get(i).map(|s| super::c13_generic(s)).unwrap_or_else(|| "extra".into())),
				format!("{}: schema line {}: got {:?} want {:?} (got {} lines, want {})", desc, i, got.get(i), want.get(i), got.len(), want.len()),
				Some(&bytes),
			);
		}
		out.class(format!("schema-lines={} v{}.{}", got.len(), if truth.version.0 == 3 { truth.version.1 } else { 0 }, truth.version.0));
		out.count("schema_lines_compared", got.len() as u64);
		// (2)+(3) values and validity
		if arr.len() != truth.frames.len() {
			out.violate("arrow-rows", format!("{}: struct array has {} rows, history has {}", desc, arr.len(), truth.frames.len()), Some(&bytes));
		}
		match view::cols_arrow(&arr) {
			Ok(ac) => {
				let d = view::diff_expected(&exp, &ac, "arrow", 3);
				for m in d.fields.iter().chain(d.structure.iter()).take(3) {
					out.violate(format!("arrow-vs-model;{}", super::c03::sig_of(m)), format!("{}: {}", desc, m), Some(&bytes));
				}
				let mut leaves = 0u64;
				for (path, (ty, vals)) in &imm.leaves {
					match ac.leaves.get(path) {
						Some((t2, v2)) if t2 == ty && v2 == vals => leaves += vals.len() as u64,
						Some(_) => out.violate(format!("arrow-vs-columns;{}", super::c13_generic(path)), format!("{}: exported column {} differs from in-memory column", desc, path), Some(&bytes)),
						None => out.violate(format!("arrow-missing-column;{}", super::c13_generic(path)), format!("{}: in-memory column {} not exported", desc, path), Some(&bytes)),
					}
				}
				out.count("leaf_values_compared", leaves);
				if ac.leaves.len() != imm.leaves.len() {
					out.violate("arrow-extra-columns", format!("{}: {} exported leaves vs {} in-memory", desc, ac.leaves.len(), imm.leaves.len()), Some(&bytes));
				}
			}
			Err(e) => out.violate("arrow-walk-failed", format!("{}: {}", desc, e), Some(&bytes)),
		}
		// (4) import again and serialise
		match guard(move || Frame::from_struct_array(arr, version)) {
			Ok(fr) => {
				game2.frames = fr;
				match common::slp_write(&game2) {
					Ok(w) if w == bytes => out.count("import_roundtrips", 1),
					Ok(w) => out.violate("import-roundtrip-differs", format!("{}: write(from_struct_array(into_struct_array(frames))) differs: {}", desc, common::first_diff(&bytes, &w)), Some(&bytes)),
					Err(f) => out.violate(format!("import-write-failed;{}", f.sig()), format!("{}: {}", desc, f.text()), Some(&bytes)),
				}
			}
			Err(p) => out.violate(format!("from_struct_array-panic;{}", norm_msg(&p.msg)), format!("{}: from_struct_array panicked at {}: {}", desc, p.loc, p.msg), Some(&bytes)),
		}
		if idx % 60 == 0 {
			out.sample = Some(json!({"case": idx, "input": desc, "schema_head": got.iter().take(6).collect::<Vec<_>>(), "schema_lines": got.len(), "observed": if out.violations.is_empty() { "schema == spec tree; export == columns; import round-trips" } else { "MISMATCH" }}));
		}
		out
	}
}
