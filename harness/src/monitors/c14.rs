//! C14: Arrow struct array has the per-version schema and converts back losslessly.

use super::c01::case_input;
use crate::common::{self, Space};
use crate::driver::{Lane, LaneKind, guard, norm_msg, CaseOut, Ctx, Monitor, Tier};
use crate::view;
use arrow2::array::Array;
use peppi::frame::immutable::Frame;
use serde_json::json;

pub struct C14 {
	quick: Space,
	thorough: Space,
	fixtures: Vec<(String, Vec<u8>)>,
}

impl C14 {
	pub fn new() -> Self {
		C14 { quick: Space::new(false), thorough: Space::new(true), fixtures: common::fixtures() }
	}
}

/// Input class used to key the known zero-field-struct finding.
pub fn empty_struct_class(v: (u8, u8), nports: usize) -> &'static str {
	if nports == 0 {
		"no-occupied-port"
	} else if crate::spec::gte(v, (3, 0)) && !crate::spec::gte(v, (3, 7)) {
		"frame-end-has-no-fields(v3.0-3.6)"
	} else {
		"other"
	}
}

/// number of thread populations tried by the concurrent case (quick, thorough)
const N_STRESS: (usize, usize) = (8, 64);

/// Threads of one process export and re-import DIFFERENT small games at the same time, again and
/// again: the same version with different port sets in even cases (a leak between exports shows as
/// another game's field names), different versions in odd ones. Every exported type must be the
/// one the same game gave single-threaded (itself required to equal the spec tree), and after the
/// last import the frames must still serialise to the input file.
fn stress_kind(ctx: &Ctx, k: usize, out: &mut CaseOut) {
	let nthreads = 12;
	let iters = ctx.tier.pick(8_000usize, 30_000);
	let mut inputs = vec![];
	for (d, b) in crate::stress::games(ctx.seed, k, nthreads, false) {
		let (Ok(g), Ok(m)) = (common::slp_read(&b, false, false), crate::model::parse(&b)) else { continue };
		let (v, p) = (g.start.slippi.version, common::ports_of(&g.start));
		if empty_struct_class(m.v(), p.len()) != "other" {
			continue;
		}
		let p2 = p.clone();
		let Ok(arr) = guard(move || g.frames.into_struct_array(v, &p2)) else { continue };
		let mut got = vec![];
		view::schema_lines(arr.data_type(), "", &mut got);
		if got != view::expected_schema(m.v(), &view::occupied_chars(&m.start)) {
			out.count("stress_input_skipped(sequential export has the wrong schema)", 1);
			continue;
		}
		inputs.push((d, b, arr.data_type().clone()));
	}
	if inputs.len() < 2 {
		return;
	}
	let n_in = inputs.len();
	let results = crate::stress::run(inputs, move |_t, (d, b, want)| {
		let mut o = crate::stress::Outcome::default();
		let Ok(mut game) = common::slp_read(&b, false, false) else { return o };
		let (v, p) = (game.start.slippi.version, common::ports_of(&game.start));
		let Ok(g2) = common::slp_read(&b, false, false) else { return o };
		let mut frames = Some(g2.frames);
		for i in 0..iters {
			let (f, p2) = (frames.take().unwrap(), p.clone());
			let arr = match guard(move || f.into_struct_array(v, &p2)) {
				Ok(a) => a,
				Err(pn) => {
					o.problems.push(format!("{}: export {} while other threads export other games panicked at {}: {}", d, i, pn.loc, pn.msg));
					break;
				}
			};
			if arr.data_type() != &want {
				o.judged_in_full += 1;
				let (mut a, mut w) = (vec![], vec![]);
				view::schema_lines(arr.data_type(), "", &mut a);
				view::schema_lines(&want, "", &mut w);
				let j = a.iter().zip(w.iter()).position(|(x, y)| x != y).unwrap_or(a.len().min(w.len()));
				o.problems.push(format!("{}: export {} while other threads export other games has another type: line {}: got {:?} want {:?}", d, i, j, a.get(j), w.get(j)));
			}
			match guard(move || Frame::from_struct_array(arr, v)) {
				Ok(f) => frames = Some(f),
				Err(pn) => {
					o.problems.push(format!("{}: import {} while other threads work on other games panicked at {}: {}", d, i, pn.loc, pn.msg));
					break;
				}
			}
			o.done += 1;
			if o.problems.len() >= 2 {
				break;
			}
		}
		if let Some(f) = frames {
			game.frames = f;
			match common::slp_write(&game) {
				Ok(w) if w == b => {}
				Ok(w) => o.problems.push(format!("{}: after {} concurrent export/import rounds the frames serialise differently: {}", d, o.done, common::first_diff(&b, &w))),
				Err(f) => o.problems.push(format!("{}: after {} concurrent export/import rounds: {}", d, o.done, f.text())),
			}
		}
		o
	});
	for r in results {
		match r {
			Ok(o) => {
				out.evals += o.done;
				out.count("concurrent_exports", o.done);
				for p in o.problems.into_iter().take(1) {
					out.violate_sub(k as u64, "concurrent-export-differs", p, None);
				}
			}
			Err(()) => out.violate_sub(k as u64, "concurrent-export-panic", "a thread of the concurrent case panicked outside the guards".to_string(), None),
		}
	}
	out.class(format!("concurrent|{}-threads|{}", n_in, crate::stress::kind_name(k)));
}

/// The concurrent family is ONE case, numbered last: its shard reaches it when the other shards
/// are finishing, so its threads really run side by side on the cores instead of time-sliced among
/// 16 busy worker processes. The kinds of thread population are its sub-evaluations.
fn stress_case(ctx: &Ctx) -> CaseOut {
	let mut out = CaseOut::default();
	for k in 0..ctx.tier.pick(N_STRESS.0, N_STRESS.1) {
		if !ctx.mark(k as u64) {
			continue;
		}
		stress_kind(ctx, k, &mut out);
	}
	out.sample = Some(json!({"case": "concurrent", "kinds": ctx.tier.pick(N_STRESS.0, N_STRESS.1), "evaluations": out.evals}));
	out
}

impl Monitor for C14 {
	fn id(&self) -> &'static str {
		"C14"
	}
	fn rule(&self) -> String {
		"same workload space as C01 (all 784 versions, 81 port/ICs configurations in thorough, random histories). Per case: export frames with Frame::into_struct_array; (1) its data_type tree, rendered as ordered 'path: type' lines, must equal the tree built from the hand-transcribed spec tables (names, nesting, order, primitive types; id, ports.P<n>.leader/follower.pre/post, start >= 2.2, end and item: List<item> >= 3.0); (2) row count = frames, struct validity of each character = presence in the history; (3) every exported leaf equals the in-memory column (accessor table) and the model's expected values; (4) Frame::from_struct_array(array) put back into the game must serialise to the identical .slp. Every 4th case is preceded on the same thread by the export of a game of a later major version (4, 5, 9, 255) with the same minor and ports (outside the property, not judged). A family of concurrent cases runs 12 threads that each export and re-import a DIFFERENT small game 8 000 (30 000) times at once (same version with other port sets in even cases, other versions in odd ones): every exported type must be the single-threaded one and the frames must still serialise to the input. distinct = workload classes + distinct schema trees observed.".into()
	}
	fn lanes(&self, _tier: Tier) -> Vec<Lane> {
		vec![
			Lane { kind: LaneKind::Miri, name: "roundtrip", shards: (0..25).collect(), nshards: 25 },
			// three threads on different games at once, four Miri schedules: data races and aliasing
			// violations in any state shared between exports are reported whatever the outcome
			Lane { kind: LaneKind::Miri, name: "concurrent", shards: (0..4).collect(), nshards: 4 },
		]
	}
	fn n_cases(&self, ctx: &Ctx) -> usize {
		self.fixtures.len() + ctx.tier.pick(&self.quick, &self.thorough).len() + 1
	}
	fn min_classes(&self, tier: Tier) -> usize {
		tier.pick(60, 100)
	}
	fn run(&self, ctx: &Ctx, idx: usize) -> CaseOut {
		let mut out = CaseOut::default();
		let n_main = self.fixtures.len() + ctx.tier.pick(&self.quick, &self.thorough).len();
		if idx >= n_main {
			return stress_case(ctx);
		}
		let Some((desc, bytes, truth)) = case_input(ctx.tier.pick(&self.quick, &self.thorough), &self.fixtures, ctx.seed, idx, &mut out) else { return out };
		out.evals = 1;
		let (game, mut game2) = match (common::slp_read(&bytes, false, false), common::slp_read(&bytes, false, false)) {
			(Ok(a), Ok(b)) => (a, b),
			(Err(f), _) | (_, Err(f)) => {
				out.violate(format!("read-failed;{}", f.sig()), format!("{}: {}", desc, f.text()), Some(&bytes));
				return out;
			}
		};
		// history: every 4th case first exports, on this thread, a game of a LATER MAJOR version with the
		// same minor and ports (the reader accepts it with the newest layout). That export is outside
		// this property and is not judged; the export of the case's own game right after it is.
		if idx % 4 == 1 {
			let mut r3 = crate::rng::Rng::derive(ctx.seed, 0xC14A ^ idx as u64);
			let major = [4u8, 5, 9, 255][(idx / 4) % 4];
			if let Some(ob) = common::sibling_game((major, truth.version.1, 0), &truth.start, 3, &mut r3) {
				match common::slp_read(&ob, false, false) {
					Ok(g) => {
						let (v, p) = (g.start.slippi.version, common::ports_of(&g.start));
						match guard(move || g.frames.into_struct_array(v, &p).len()) {
							Ok(_) => out.count("later_major_export_before_this_one", 1),
							Err(_) => out.count("later_major_export_panicked_before_this_one(not judged)", 1),
						}
					}
					Err(_) => out.count("later_major_game_not_readable(not judged)", 1),
				}
			}
		}
		let version = game.start.slippi.version;
		let ports = common::ports_of(&game.start);
		let chars = view::occupied_chars(&truth.start);
		let exp = view::expected_cols(&truth, &chars);
		let imm = view::cols_imm(&game.frames);
		let nports = ports.len();
		let ports2 = ports.clone();
		let arr = match guard(move || game.frames.into_struct_array(version, &ports2)) {
			Ok(a) => a,
			Err(p) => {
				out.violate(
					format!("into_struct_array-panic;{};class={}", norm_msg(&p.msg), empty_struct_class(truth.v(), nports)),
					format!("{}: Frame::into_struct_array panicked at {}: {}", desc, p.loc, p.msg),
					Some(&bytes),
				);
				return out;
			}
		};
		// (1) schema
		let mut got = vec![];
		view::schema_lines(arr.data_type(), "", &mut got);
		let want = view::expected_schema(truth.v(), &chars);
		if got != want {
			let i = got.iter().zip(want.iter()).position(|(a, b)| a != b).unwrap_or(got.len().min(want.len()));
			out.violate(
				format!("schema;{}", want.get(i).map(|s| super::c13_generic(s)).unwrap_or_else(|| "extra".into())),
				format!("{}: schema line {}: got {:?} want {:?} (got {} lines, want {})", desc, i, got.get(i), want.get(i), got.len(), want.len()),
				Some(&bytes),
			);
		}
		out.class(format!("schema-lines={} v{}.{}", got.len(), if truth.version.0 == 3 { truth.version.1 } else { 0 }, truth.version.0));
		out.count("schema_lines_compared", got.len() as u64);
		// (2)+(3) values and validity
		if arr.len() != truth.frames.len() {
			out.violate("arrow-rows", format!("{}: struct array has {} rows, history has {}", desc, arr.len(), truth.frames.len()), Some(&bytes));
		}
		match view::cols_arrow(&arr) {
			Ok(ac) => {
				let d = view::diff_expected(&exp, &ac, "arrow", 3);
				for m in d.fields.iter().chain(d.structure.iter()).take(3) {
					out.violate(format!("arrow-vs-model;{}", super::c03::sig_of(m)), format!("{}: {}", desc, m), Some(&bytes));
				}
				let mut leaves = 0u64;
				for (path, (ty, vals)) in &imm.leaves {
					match ac.leaves.get(path) {
						Some((t2, v2)) if t2 == ty && v2 == vals => leaves += vals.len() as u64,
						Some(_) => out.violate(format!("arrow-vs-columns;{}", super::c13_generic(path)), format!("{}: exported column {} differs from in-memory column", desc, path), Some(&bytes)),
						None => out.violate(format!("arrow-missing-column;{}", super::c13_generic(path)), format!("{}: in-memory column {} not exported", desc, path), Some(&bytes)),
					}
				}
				out.count("leaf_values_compared", leaves);
				if ac.leaves.len() != imm.leaves.len() {
					out.violate("arrow-extra-columns", format!("{}: {} exported leaves vs {} in-memory", desc, ac.leaves.len(), imm.leaves.len()), Some(&bytes));
				}
			}
			Err(e) => out.violate("arrow-walk-failed", format!("{}: {}", desc, e), Some(&bytes)),
		}
		// (4) import again and serialise
		match guard(move || Frame::from_struct_array(arr, version)) {
			Ok(fr) => {
				game2.frames = fr;
				match common::slp_write(&game2) {
					Ok(w) if w == bytes => out.count("import_roundtrips", 1),
					Ok(w) => out.violate("import-roundtrip-differs", format!("{}: write(from_struct_array(into_struct_array(frames))) differs: {}", desc, common::first_diff(&bytes, &w)), Some(&bytes)),
					Err(f) => out.violate(format!("import-write-failed;{}", f.sig()), format!("{}: {}", desc, f.text()), Some(&bytes)),
				}
			}
			Err(p) => out.violate(format!("from_struct_array-panic;{}", norm_msg(&p.msg)), format!("{}: from_struct_array panicked at {}: {}", desc, p.loc, p.msg), Some(&bytes)),
		}
		if idx % 60 == 0 {
			out.sample = Some(json!({"case": idx, "input": desc, "schema_head": got.iter().take(6).collect::<Vec<_>>(), "schema_lines": got.len(), "observed": if out.violations.is_empty() { "schema == spec tree; export == columns; import round-trips" } else { "MISMATCH" }}));
		}
		out
	}
}
