//! C09: writers refuse games newer than the supported version (and only those).

use crate::common::{self, Comp, Fail};
use crate::driver::{CaseOut, Ctx, Monitor, Tier};
use crate::gen;
use crate::rng::Rng;
use serde_json::json;

pub struct C09;

const CHUNK: usize = 4096;
pub const MAX: (u8, u8, u8) = (3, 16, 0);

fn quick_list(seed: u64) -> Vec<(u8, u8, u8)> {
	let mut v = vec![];
	// neighbourhood of the boundary in every component
	for major in [0u8, 1, 2, 3, 4, 5, 255] {
		for minor in [0u8, 1, 14, 15, 16, 17, 18, 255] {
			for patch in [0u8, 1, 2, 254, 255] {
				v.push((major, minor, patch));
			}
		}
	}
	// every (major, minor, 0)
	for major in 0..=255u8 {
		for minor in 0..=255u8 {
			v.push((major, minor, 0));
		}
	}
	// every patch at the boundary minor and its neighbours
	for minor in [15u8, 16, 17] {
		for patch in 0..=255u8 {
			v.push((3, minor, patch));
		}
	}
	let mut rng = Rng::derive(seed, 0xC09);
	for _ in 0..40000 {
		v.push((rng.byte(), rng.byte(), rng.byte()));
	}
	v
}

#[derive(PartialEq, Eq, Debug, Clone, Copy)]
enum Cls {
	Ok,
	VersionRefusal,
	OtherErr,
	Panic,
}

fn classify<T>(r: &Result<T, Fail>) -> Cls {
	match r {
		Ok(_) => Cls::Ok,
		Err(Fail::Err(e)) if e.contains("unsupported version") => Cls::VersionRefusal,
		Err(Fail::Err(_)) => Cls::OtherErr,
		Err(Fail::Panic(_)) => Cls::Panic,
	}
}

impl Monitor for C09 {
	fn id(&self) -> &'static str {
		"C09"
	}
	fn rule(&self) -> String {
		"for each version triple a structurally valid two-player replay of that version is generated (zero frames for 7 of 8 versions, two frames otherwise) (newest known layout for versions above 3.16), read with slippi::read, and handed to slippi::write and peppi::write. Outcomes are classified Ok / version refusal (error mentioning 'unsupported version') / other error / panic. Violations: Ok above 3.16.0 (tuple order major, minor, patch) or a version refusal at or below it. quick: boundary neighbourhoods in every component, all (major,minor,0), all patches of 3.15/3.16/3.17, 40000 seeded random triples; thorough: all 2^24 triples (exhaustive). distinct = (side of the boundary, format, outcome, major) classes.".into()
	}
	fn assumptions(&self) -> Vec<String> {
		vec!["a panic or non-version error on the accepting side (e.g. the known zero-field-struct panic for 3.0-3.6) is not a C09 verdict; it is counted and belongs to C02/C14".into()]
	}
	fn exhaustive(&self, tier: Tier) -> bool {
		tier == Tier::Thorough
	}
	fn n_cases(&self, ctx: &Ctx) -> usize {
		match ctx.tier {
			Tier::Quick => (quick_list(ctx.seed).len() + CHUNK - 1) / CHUNK,
			Tier::Thorough => (1 << 24) / CHUNK,
		}
	}
	fn min_classes(&self, _tier: Tier) -> usize {
		8
	}
	fn run(&self, ctx: &Ctx, idx: usize) -> CaseOut {
		let mut out = CaseOut::default();
		let list: Vec<(u8, u8, u8)> = match ctx.tier {
			Tier::Quick => quick_list(ctx.seed).into_iter().skip(idx * CHUNK).take(CHUNK).collect(),
			Tier::Thorough => (idx * CHUNK..(idx + 1) * CHUNK).map(|x| ((x >> 16) as u8, (x >> 8) as u8, x as u8)).collect(),
		};
		let mut rng = Rng::derive(7, idx as u64);
		for ver in list {
			let above = ver > MAX;
			// mostly zero-frame games (cheap); every 8th version gets frames, every 16th Ice Climbers
			let h = ver.0 as usize * 31 + ver.1 as usize * 7 + ver.2 as usize;
			let spec = gen::base_spec(ver, if h % 16 == 0 { vec![(0, true), (2, false)] } else { vec![(0, false), (1, false)] }, if h % 8 == 0 && (ver.0, ver.1) != (0, 0) { 2 } else { 0 });
			let mut spec = spec;
			// the build byte and the rest of the block are not part of the version
			spec.build = if h % 3 == 0 { 0 } else { rng.byte() };
			spec.rich_start = h % 5 == 0;
			let built = gen::build(&spec, &mut rng);
			let g1 = common::slp_read(&built.bytes, false, false);
			let g2 = common::slp_read(&built.bytes, false, false);
			let (g1, g2) = match (g1, g2) {
				(Ok(a), Ok(b)) => (a, b),
				(Err(f), _) | (_, Err(f)) => {
					// reading is C08's business; without a game there is nothing to write
					out.inconclusive.push(format!("v{:?}: cannot read generated replay: {}", ver, f.text()));
					continue;
				}
			};
			for (fmt, cls) in [("slp", classify(&common::slp_write(&g1))), ("slpp", classify(&common::slpp_write(g2, Comp::None)))] {
				out.evals += 1;
				out.count(&format!("{}_{:?}_{}", fmt, cls, if above { "above" } else { "at_or_below" }), 1);
				out.class(format!("{}|{}|{:?}|major={}", if above { "above-max" } else { "at-or-below-max" }, fmt, cls, ver.0.min(5)));
				if above && cls == Cls::Ok {
					out.violate(format!("accepted-above-max;{}", fmt), format!("version {}.{}.{} > 3.16.0 but {} write returned Ok", ver.0, ver.1, ver.2, fmt), Some(&built.bytes));
				}
				if !above && cls == Cls::VersionRefusal {
					out.violate(format!("refused-at-or-below-max;{}", fmt), format!("version {}.{}.{} <= 3.16.0 but {} write refused it on version grounds", ver.0, ver.1, ver.2, fmt), Some(&built.bytes));
				}
			}
		}
		out.sample = Some(json!({"case": idx, "evaluations": out.evals, "outcomes": out.counters}));
		out
	}
}
