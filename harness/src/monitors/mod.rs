use crate::driver::Monitor;

pub mod c01;

pub fn all() -> Vec<Box<dyn Monitor>> {
	vec![Box::new(c01::C01::new())]
}

pub fn get(id: &str) -> Option<Box<dyn Monitor>> {
	all().into_iter().find(|m| m.id() == id)
}
