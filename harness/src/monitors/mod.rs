use crate::driver::Monitor;

pub mod c01;
pub mod c02;
pub mod c03;
pub mod c04;
pub mod c05;
pub mod c06;
pub mod c07;
pub mod c08;
pub mod c09;
pub mod c10;
pub mod c11;
pub mod c12;
pub mod c13;
pub mod c14;
pub mod c15;
pub mod c16;
pub mod c17;
pub mod c18;
pub mod c19;
pub mod c20;

/// field path with the concrete port / item index removed (stable signatures)
pub fn c13_generic(path: &str) -> String {
	let p = path.split(':').next().unwrap_or(path).split_whitespace().next().unwrap_or("");
	p.split('.').filter(|c| !(c.len() == 2 && c.starts_with('P'))).map(|c| if c.starts_with("item[") { "item[k]" } else { c }).collect::<Vec<_>>().join(".")
}

pub const IDS: &[&str] = &["C01", "C02", "C03", "C04", "C05", "C06", "C07", "C08", "C09", "C10", "C11", "C12", "C13", "C14", "C15", "C16", "C17", "C18", "C19", "C20"];

pub fn get(id: &str) -> Option<Box<dyn Monitor>> {
	Some(match id {
		"C01" => Box::new(c01::C01::new()),
		"C02" => Box::new(c02::C02::new()),
		"C03" => Box::new(c03::C03::new()),
		"C04" => Box::new(c04::C04::new()),
		"C05" => Box::new(c05::C05::new()),
		"C06" => Box::new(c06::C06::new()),
		"C07" => Box::new(c07::C07::new()),
		"C08" => Box::new(c08::C08::new()),
		"C09" => Box::new(c09::C09),
		"C10" => Box::new(c10::C10::new()),
		"C11" => Box::new(c11::C11::new()),
		"C12" => Box::new(c12::C12::new()),
		"C13" => Box::new(c13::C13::new()),
		"C15" => Box::new(c15::C15),
		"C16" => Box::new(c16::C16),
		"C17" => Box::new(c17::C17),
		"C18" => Box::new(c18::C18::new()),
		"C19" => Box::new(c19::C19::new()),
		"C20" => Box::new(c20::C20),
		"C14" => Box::new(c14::C14::new()),
		_ => return None,
	})
}
