//! C11: the replay hash is the XXH3-64 of exactly the file's bytes, however they arrive.

use super::c01::case_input;
use crate::common::{self, Comp, Space};
use crate::driver::{CaseOut, Ctx, Monitor, Tier};
use crate::iofault::{Policy, Src};
use serde_json::json;
use std::sync::Arc;

pub struct C11 {
	quick: Space,
	thorough: Space,
	fixtures: Vec<(String, Vec<u8>)>,
}

impl C11 {
	pub fn new() -> Self {
		let mut q = Space::new(false);
		q.n_random = 300;
		let mut t = Space::new(true);
		t.n_random = 6000;
		C11 { quick: q, thorough: t, fixtures: common::fixtures() }
	}
}

fn want_hash(prefix: &[u8]) -> String {
	format!("xxh3:{:016x}", xxhash_rust::xxh3::xxh3_64(prefix))
}

impl Monitor for C11 {
	fn id(&self) -> &'static str {
		"C11"
	}
	fn rule(&self) -> String {
		"C01's well-formed replay space (a sixth of the generated files additionally carry one unknown event with a 16-64 KiB payload, or junk after Game End inside the raw element); each file is followed by random trailing garbage after its closing brace (which must NOT be hashed) and read with compute_hash through the instrumented source under fragmentation schedules {whole, 1-byte, fixed 2/3/7/64/4096 and two drawn from {15,16,127..129,255..257,511,512,1000,1024,8191..8193,65536}, random 1..5, random 1..300, whole reads with every 2nd/3rd/7th/50th call answered by ErrorKind::Interrupted, every two-piece split (every 3rd file <= 3 KB in quick; every 2nd file <= 12 KB in thorough; 64 random splits otherwise)} x skip-frames {off, on (finished files only)}. Oracle: hash == 'xxh3:' + 16 lowercase hex digits of the one-shot xxh3_64 over exactly the bytes the counting source delivered, which must equal the file through its closing brace; identical across schedules and skip on/off; None when hashing is not requested; unchanged by a .slpp round trip. 48 (thorough 384) files place the first/second Game End or the metadata 0..7 bytes before a multiple of 4/8/64 KiB of file offset. Every third hashed read is preceded on the same thread by a hashed read of a truncated copy (which fails part-way); its bytes must not reach the next digest. One evaluation = one read. distinct = workload classes x schedule.".into()
	}
	fn assumptions(&self) -> Vec<String> {
		vec!["the XXH3-64 digest function (xxhash-rust one-shot API) is trusted; peppi uses the streaming API".into()]
	}
	fn n_cases(&self, ctx: &Ctx) -> usize {
		self.fixtures.len() + ctx.tier.pick(&self.quick, &self.thorough).len() + ctx.tier.pick(48, 384)
	}
	fn min_classes(&self, tier: Tier) -> usize {
		tier.pick(100, 200)
	}
	fn run(&self, ctx: &Ctx, idx: usize) -> CaseOut {
		let mut out = CaseOut::default();
		let n_main = self.fixtures.len() + ctx.tier.pick(&self.quick, &self.thorough).len();
		let input = if idx >= n_main {
			// Game End / second Game End / metadata starting 0..7 bytes before a multiple of 4/8/64 KiB
			// of file offset (where a buffer inside the reader would be refilled); every 4th k
			common::boundary_case((idx - n_main) * 4 + (idx % 4), ctx.seed, &mut out)
		} else {
			case_input(ctx.tier.pick(&self.quick, &self.thorough), &self.fixtures, ctx.seed, idx, &mut out)
		};
		let Some((desc, bytes, truth)) = input else { return out };
		// a sixth of the generated files are accepted-but-irregular: one large unknown event (a
		// single payload of 16 KiB .. 64 KiB) or junk after Game End inside the raw element; the hash
		// must still be the digest of exactly the bytes consumed
		let (bytes, truth) = if idx >= self.fixtures.len() && idx % 6 == 2 {
			let mut r2 = crate::rng::Rng::derive(ctx.seed, 0xC11B ^ idx as u64);
			let mut p = crate::mutate::split(&bytes, &truth);
			let mut b2 = None;
			if idx % 12 == 2 {
				let code = 0x42u8;
				if !p.table.iter().any(|(c, _)| *c == code) {
					let sz = *r2.pick(&[16383usize, 16384, 16385, 40000, 65535]);
					p.table.push((code, sz as u16));
					let first_end = p.events.iter().position(|(c, _)| *c == 0x39).unwrap_or(p.events.len());
					let j = r2.range(1, first_end.max(1));
					p.events.insert(j, (code, r2.bytes(sz)));
					b2 = Some(crate::mutate::assemble(&p, true));
					out.class("with-large-unknown-event".to_string());
				}
			} else if p.events.iter().any(|(c, _)| *c == 0x39) {
				let n = *r2.pick(&[1usize, 3, 16, 700]);
				let mut y = crate::mutate::assemble(&p, true);
				let raw_end = y.len() - p.tail.len();
				let mut junk = r2.bytes(n);
				if n == 1 + crate::spec::end_size(truth.v()) {
					junk[0] = 0xEE;
				}
				for (k, b) in junk.iter().enumerate() {
					y.insert(raw_end + k, *b);
				}
				let declared = (raw_end - 15 + n) as u32;
				y[11..15].copy_from_slice(&declared.to_be_bytes());
				b2 = Some(y);
				out.class("with-junk-after-game-end".to_string());
			}
			match b2.and_then(|b| crate::model::parse(&b).ok().map(|m| (b, m))) {
				Some(x) => x,
				None => (bytes, truth),
			}
		} else {
			(bytes, truth)
		};
		let base: Vec<String> = out.classes.iter().take(2).cloned().collect();
		let mut rng = crate::rng::Rng::derive(ctx.seed, 0xC11 ^ idx as u64);
		let mut with_tail = bytes.clone();
		let ntail = rng.range(0, 40);
		with_tail.extend_from_slice(&rng.bytes(ntail));
		let data = Arc::new(with_tail);
		let want = want_hash(&bytes[..truth.consumed]);
		// skip-frames presupposes that Game End is the last thing in the raw element
		let finished = !truth.ends.is_empty() && truth.junk_after_end == 0;
		let big = bytes.len() > 100_000;
		let mut policies = vec![Policy::Whole, Policy::Fixed(1), Policy::Fixed(2), Policy::Fixed(3), Policy::Fixed(7), Policy::Fixed(64), Policy::Fixed(4096), Policy::Random(5, rng.next()), Policy::Random(300, rng.next()), Policy::Fixed(*rng.pick(&[15usize, 16, 255, 256, 257, 511, 512, 1000, 8191, 8192, 8193])), Policy::Fixed(*rng.pick(&[127usize, 128, 129, 256, 1024, 65536])), Policy::Interrupt(*rng.pick(&[2usize, 3, 7, 50]))];
		if big {
			policies = vec![Policy::Whole, Policy::Fixed(7), Policy::Random(300, rng.next())];
		}
		let all_splits = bytes.len() <= ctx.tier.pick(3000, 12_000) && idx % ctx.tier.pick(3, 2) == 0;
		if all_splits {
			for p in 1..bytes.len() {
				policies.push(Policy::Split(p));
			}
		} else if !big {
			for _ in 0..64 {
				policies.push(Policy::Split(rng.range(1, bytes.len() - 1)));
			}
		}
		for pol in &policies {
			for skip in [false, true] {
				if skip && !finished {
					continue;
				}
				out.evals += 1;
				// history: every third evaluation is preceded, on this thread, by a hashed read that
				// fails part-way (a truncated copy); what it consumed must not reach the next digest
				if (idx + out.evals as usize) % 3 == 0 && bytes.len() > 40 {
					let cut = 20 + (idx * 7919 + out.evals as usize * 104729) % (bytes.len() - 21);
					match common::slp_read(&bytes[..cut], skip, true) {
						Err(_) => out.count("failed_hashed_read_before_this_one", 1),
						Ok(_) => out.count("truncated_copy_accepted_before_this_one", 1),
					}
				}
				// every 4th case reads from a stream that is not at offset 0 (junk prefix before the file)
				let src = if idx % 4 == 1 { Src::new(data.clone(), pol.clone()).with_prefix(1 + idx % 513) } else { Src::new(data.clone(), pol.clone()) };
				let stats = src.stats();
				let r = common::slp_read_src(src, skip, true);
				for c in &base {
					out.class(format!("{} sched={} skip={}", c, pol.name(), skip));
				}
				match r {
					Ok(g) => {
						let delivered = stats.bytes();
						if delivered != truth.consumed {
							out.violate(format!("consumed-bytes;sched={};skip={}", pol.name(), skip), format!("{}: source delivered {} bytes but the file through its closing brace has {} (schedule {:?}, skip={})", desc, delivered, truth.consumed, pol, skip), Some(&data));
						}
						match &g.hash {
							Some(h) if *h == want => out.count("hash_matches", 1),
							other => out.violate(format!("hash-wrong;sched={};skip={}", pol.name(), skip), format!("{}: hash {:?} want {} (schedule {:?}, skip={}, delivered {} bytes)", desc, other, want, pol, skip, delivered), Some(&data)),
						}
					}
					Err(f) => out.violate(format!("read-failed;sched={};{}", pol.name(), f.sig()), format!("{}: read under schedule {:?} skip={} failed: {}", desc, pol, skip, f.text()), Some(&data)),
				}
			}
		}
		// not requested -> not reported; stored hash survives .slpp
		out.evals += 1;
		match common::slp_read(&bytes, false, false) {
			Ok(g) if g.hash.is_some() => out.violate("hash-without-request", format!("{}: hash {:?} reported although not requested", desc, g.hash), Some(&bytes)),
			_ => {}
		}
		if !big || idx % 3 == 0 {
			if let Ok(g) = common::slp_read(&bytes, false, true) {
				let h0 = g.hash.clone();
				for comp in [Comp::None, Comp::Zstd] {
					if let Ok(g1) = common::slp_read(&bytes, false, true) {
						if let Ok(arch) = common::slpp_write(g1, comp) {
							out.evals += 1;
							for skip in [false, true] {
								match common::slpp_read(&arch, skip) {
									Ok(g2) if g2.hash == h0 => out.count("hash_survives_slpp", 1),
									Ok(g2) => out.violate("hash-changed-by-slpp", format!("{}: stored hash {:?} became {:?} (comp={}, skip={})", desc, h0, g2.hash, comp.name(), skip), Some(&bytes)),
									Err(_) => {} // C02's business
								}
							}
						}
					}
				}
				let _ = g;
			}
		}
		if idx % 50 == 0 {
			out.sample = Some(json!({"case": idx, "input": desc, "schedules": policies.len(), "two_piece_splits_exhaustive": all_splits, "want": want, "trailing_garbage_bytes": ntail}));
		}
		out
	}
}
