//! Sharded, crash-isolating driver. A check = one `Monitor`; its cases are
//! split over worker *processes* (so aborts, stack overflows and hangs in the
//! library under test are observed from outside and attributed to the in-flight
//! case via a write-ahead progress record).

use serde_json::{json, Value};
use std::collections::{BTreeMap, BTreeSet};
use std::fs::{self, File, OpenOptions};
use std::io::{BufRead, BufReader, Write};
use std::os::unix::fs::FileExt;
use std::os::unix::process::ExitStatusExt;
use std::path::{Path, PathBuf};
use std::process::{Child, Command, Stdio};
use std::sync::atomic::{AtomicU64, Ordering::Relaxed};
use std::time::{Duration, Instant};

#[derive(Clone, Copy, Debug, PartialEq, Eq)]
pub enum Tier {
	Quick,
	Thorough,
}
impl Tier {
	pub fn name(self) -> &'static str {
		match self {
			Tier::Quick => "quick",
			Tier::Thorough => "thorough",
		}
	}
	pub fn pick<T>(self, q: T, t: T) -> T {
		match self {
			Tier::Quick => q,
			Tier::Thorough => t,
		}
	}
}

pub fn verif_root() -> PathBuf {
	std::env::var("PVH_ROOT").map(PathBuf::from).unwrap_or_else(|_| PathBuf::from("/verif"))
}

pub struct Ctx {
	pub tier: Tier,
	pub seed: u64,
	progress: Option<File>,
	cur_idx: AtomicU64,
	/// when replaying: run only this sub-evaluation of the case
	pub only_sub: Option<u64>,
}

impl Ctx {
	pub fn new(tier: Tier, seed: u64) -> Self {
		Ctx { tier, seed, progress: None, cur_idx: AtomicU64::new(0), only_sub: None }
	}
	/// Write-ahead marker: call before each sub-evaluation that could kill the
	/// process. Returns false if this sub-evaluation must be skipped (replay of
	/// a single sub-evaluation).
	pub fn mark(&self, sub: u64) -> bool {
		if let Some(f) = &self.progress {
			let mut b = [0u8; 16];
			b[..8].copy_from_slice(&self.cur_idx.load(Relaxed).to_le_bytes());
			b[8..].copy_from_slice(&sub.to_le_bytes());
			let _ = f.write_all_at(&b, 0);
		}
		self.only_sub.map_or(true, |s| s == sub)
	}
}

#[derive(Clone, Debug)]
pub struct Violation {
	/// stable signature used for known-finding matching
	pub sig: String,
	pub detail: String,
	pub witness: Option<Vec<u8>>,
	pub sub: Option<u64>,
}

#[derive(Default)]
pub struct CaseOut {
	pub evals: u64,
	pub classes: BTreeSet<String>,
	pub violations: Vec<Violation>,
	pub inconclusive: Vec<String>,
	pub sample: Option<Value>,
	pub counters: BTreeMap<String, u64>,
	/// distinct strings observed (e.g. error messages, panic sites), by kind
	pub observed: BTreeMap<String, BTreeSet<String>>,
	/// a monitored thread is stuck: the worker must exit after logging this case
	pub abandon_worker: bool,
}

impl CaseOut {
	pub fn class(&mut self, c: impl Into<String>) {
		self.classes.insert(c.into());
	}
	pub fn count(&mut self, k: &str, n: u64) {
		*self.counters.entry(k.to_string()).or_default() += n;
	}
	pub fn observe(&mut self, kind: &str, s: impl Into<String>) {
		let set = self.observed.entry(kind.to_string()).or_default();
		if set.len() < 400 {
			set.insert(s.into());
		}
	}
	pub fn violate(&mut self, sig: impl Into<String>, detail: impl Into<String>, witness: Option<&[u8]>) {
		if self.violations.len() < 8 {
			self.violations.push(Violation { sig: sig.into(), detail: detail.into(), witness: witness.map(|w| w.to_vec()), sub: None });
		} else {
			self.count("violations_not_listed", 1);
		}
	}
	pub fn violate_sub(&mut self, sub: u64, sig: impl Into<String>, detail: impl Into<String>, witness: Option<&[u8]>) {
		self.violate(sig, detail, witness);
		if let Some(v) = self.violations.last_mut() {
			if v.sub.is_none() {
				v.sub = Some(sub);
			}
		}
	}
}

pub trait Monitor: Sync {
	fn id(&self) -> &'static str;
	fn level(&self) -> &'static str {
		"exploration"
	}
	fn rule(&self) -> String;
	fn assumptions(&self) -> Vec<String> {
		vec![]
	}
	fn n_cases(&self, ctx: &Ctx) -> usize;
	fn run(&self, ctx: &Ctx, idx: usize) -> CaseOut;
	/// minimum number of distinct classes a run must observe to count
	fn min_classes(&self, _tier: Tier) -> usize {
		2
	}
	/// what a process death during a case means for this property
	fn death_is_violation(&self) -> bool {
		true
	}
	/// extra, check-specific fields for the evidence coverage object
	fn extra_coverage(&self, _agg: &Aggregate) -> Value {
		json!({})
	}
	fn exhaustive(&self, _tier: Tier) -> bool {
		false
	}
	/// sanitizer lanes to run after the main workload (thorough tier)
	fn lanes(&self, _tier: Tier) -> Vec<Lane> {
		vec![]
	}
	/// address-space limit (bytes) under which the worker processes of this check run: the
	/// memory-limited host as an environment dimension. An allocation failure of a large block
	/// under this limit is then an observation about the library, not about the machine.
	fn address_space_limit(&self) -> Option<u64> {
		None
	}
	/// per-worker wall-clock watchdog (firing = inconclusive, never a violation)
	fn watchdog(&self, tier: Tier) -> Duration {
		Duration::from_secs(tier.pick(900, 4 * 3600))
	}
}

// ------------------------------------------------------------ panic capture

#[derive(Clone, Debug)]
pub struct Panic {
	pub loc: String,
	pub msg: String,
}

thread_local! {
	static LAST_PANIC: std::cell::RefCell<Option<Panic>> = const { std::cell::RefCell::new(None) };
}

/// A logger that formats every record and throws the text away. With the max
/// level at Trace the arguments of log macros inside the library are evaluated
/// (and their Display impls run); with it Off they are not - both happen.
struct DiscardLogger;
impl log::Log for DiscardLogger {
	fn enabled(&self, _: &log::Metadata) -> bool {
		true
	}
	fn log(&self, record: &log::Record) {
		use std::fmt::Write;
		let mut sink = NullWrite;
		let _ = write!(sink, "{}", record.args());
	}
	fn flush(&self) {}
}
struct NullWrite;
impl std::fmt::Write for NullWrite {
	fn write_str(&mut self, _: &str) -> std::fmt::Result {
		Ok(())
	}
}
static LOGGER: DiscardLogger = DiscardLogger;

pub fn install_logger() {
	let _ = log::set_logger(&LOGGER);
	log::set_max_level(log::LevelFilter::Off);
}

/// Logging on (Trace) for odd case indices, off for even ones.
pub fn set_logging_for_case(idx: usize) {
	log::set_max_level(if idx % 2 == 1 { log::LevelFilter::Trace } else { log::LevelFilter::Off });
}

pub fn install_panic_hook() {
	std::panic::set_hook(Box::new(|info| {
		let loc = info.location().map(|l| format!("{}:{}", l.file(), l.line())).unwrap_or_else(|| "?".into());
		let msg = if let Some(s) = info.payload().downcast_ref::<&str>() {
			s.to_string()
		} else if let Some(s) = info.payload().downcast_ref::<String>() {
			s.clone()
		} else {
			"<non-string panic>".into()
		};
		LAST_PANIC.with(|p| *p.borrow_mut() = Some(Panic { loc, msg }));
	}));
}

/// Run `f`, converting a panic into `Err(Panic)` with location and message.
pub fn guard<T>(f: impl FnOnce() -> T) -> Result<T, Panic> {
	LAST_PANIC.with(|p| *p.borrow_mut() = None);
	match std::panic::catch_unwind(std::panic::AssertUnwindSafe(f)) {
		Ok(v) => Ok(v),
		Err(_) => Err(LAST_PANIC.with(|p| p.borrow_mut().take()).unwrap_or(Panic { loc: "?".into(), msg: "?".into() })),
	}
}

/// Normalise a panic location: strip registry/checkout prefixes so signatures
/// are stable across machines, and shorten the message.
pub fn norm_loc(loc: &str) -> String {
	let l = loc.replace('\\', "/");
	if let Some(i) = l.find("/registry/src/") {
		let rest = &l[i + "/registry/src/".len()..];
		return rest.splitn(2, '/').nth(1).unwrap_or(rest).to_string();
	}
	if let Some(i) = l.find("/rustlib/src/rust/") {
		return format!("std:{}", &l[i + "/rustlib/src/rust/".len()..]);
	}
	if let Some(rest) = l.strip_prefix("/repo/") {
		return rest.to_string();
	}
	l
}

pub fn norm_msg(msg: &str) -> String {
	// keep the shape, drop concrete numbers (decimal runs -> N, 0x.. -> 0xN)
	let chars: Vec<char> = msg.chars().take(200).collect();
	let mut out = String::new();
	let mut i = 0;
	while i < chars.len() {
		let c = chars[i];
		if c == '0' && i + 1 < chars.len() && chars[i + 1] == 'x' {
			out.push_str("0xN");
			i += 2;
			while i < chars.len() && chars[i].is_ascii_hexdigit() {
				i += 1;
			}
			continue;
		}
		if c.is_ascii_digit() {
			out.push('N');
			while i < chars.len() && chars[i].is_ascii_digit() {
				i += 1;
			}
			continue;
		}
		out.push(if c == '\n' { ' ' } else { c });
		i += 1;
	}
	out
}

// ------------------------------------------------------------ hang watchdog

pub enum Watched<T> {
	Done(T),
	/// the thread was observed sleeping in the kernel without consuming input
	Sleeping(String),
	/// the thread burned CPU without the progress counter moving
	Spinning(String),
	/// hard wall-clock cap passed but no logical evidence of a hang
	Timeout(String),
}

fn thread_syscall(tid: i32) -> Option<i64> {
	let s = fs::read_to_string(format!("/proc/self/task/{}/syscall", tid)).ok()?;
	s.split_whitespace().next()?.parse::<i64>().ok()
}

/// CPU time (user+system) consumed by a thread, in seconds.
fn thread_cpu_s(tid: i32) -> Option<f64> {
	let s = fs::read_to_string(format!("/proc/self/task/{}/stat", tid)).ok()?;
	let rest = &s[s.rfind(')')? + 2..];
	let f: Vec<&str> = rest.split_whitespace().collect();
	// after "pid (comm)": state is f[0]; utime = field 14 overall = f[11], stime = f[12]
	let ut: f64 = f.get(11)?.parse().ok()?;
	let st: f64 = f.get(12)?.parse().ok()?;
	Some((ut + st) / 100.0)
}

pub const SPIN_CPU_S: f64 = 20.0;

/// Run `f` on a fresh thread and wait for it. Verdicts are based on logical
/// evidence, not on wall-clock alone: after `grace`, the supervisor samples
/// the thread every 1.2 s. *Sleeping*: three consecutive samples show the
/// thread in (clock_)nanosleep while `progress()` (bytes/read calls delivered
/// by the instrumented source) does not move. *Spinning*: the thread has
/// consumed >= SPIN_CPU_S seconds of CPU time (work done, independent of
/// machine load) and `progress()` was static over the last three samples.
/// Otherwise keep waiting up to `cap`, whose expiry is only a *timeout*
/// (inconclusive). The thread cannot be cancelled: after anything but `Done`
/// the caller must let the worker process exit.
pub fn watched<T: Send + 'static>(f: impl FnOnce() -> T + Send + 'static, progress: impl Fn() -> usize, grace: Duration, cap: Duration) -> Watched<T> {
	use std::sync::mpsc;
	let (tx, rx) = mpsc::channel();
	let (tid_tx, tid_rx) = mpsc::channel();
	let h = std::thread::Builder::new().stack_size(8 << 20).spawn(move || {
		let tid = fs::read_link("/proc/thread-self").ok().and_then(|p| p.file_name().and_then(|n| n.to_str().and_then(|s| s.parse::<i32>().ok()))).unwrap_or(-1);
		let _ = tid_tx.send(tid);
		let r = f();
		let _ = tx.send(r);
	});
	let h = match h {
		Ok(h) => h,
		Err(e) => return Watched::Timeout(format!("spawn failed: {}", e)),
	};
	let tid = tid_rx.recv_timeout(Duration::from_secs(5)).unwrap_or(-1);
	let t0 = Instant::now();
	match rx.recv_timeout(grace) {
		Ok(v) => {
			let _ = h.join();
			return Watched::Done(v);
		}
		Err(mpsc::RecvTimeoutError::Disconnected) => {
			let _ = h.join();
			return Watched::Timeout("monitored thread died without a result".into());
		}
		Err(mpsc::RecvTimeoutError::Timeout) => {}
	}
	let mut sleeping = 0;
	let mut static_samples = 0;
	let mut last = progress();
	loop {
		match rx.recv_timeout(Duration::from_millis(1200)) {
			Ok(v) => {
				let _ = h.join();
				return Watched::Done(v);
			}
			Err(mpsc::RecvTimeoutError::Disconnected) => {
				let _ = h.join();
				return Watched::Timeout("monitored thread died without a result".into());
			}
			Err(mpsc::RecvTimeoutError::Timeout) => {}
		}
		let now = progress();
		if now == last {
			static_samples += 1;
		} else {
			static_samples = 0;
			sleeping = 0;
		}
		last = now;
		let sc = thread_syscall(tid);
		if sc == Some(230) || sc == Some(35) {
			sleeping += 1;
		} else {
			sleeping = 0;
		}
		if sleeping >= 3 && static_samples >= 3 {
			return Watched::Sleeping(format!("thread {} in nanosleep on 3 consecutive samples 1.2 s apart; source progress static at {}", tid, now));
		}
		let cpu = thread_cpu_s(tid).unwrap_or(0.0);
		if cpu >= SPIN_CPU_S && static_samples >= 3 {
			return Watched::Spinning(format!("thread {} used {:.1} s of CPU while source progress stayed at {}", tid, cpu, now));
		}
		if t0.elapsed() > cap {
			return Watched::Timeout(format!("wall-clock cap {:?} passed; cpu {:.1}s; last syscall {:?}; progress {}", cap, cpu, sc, now));
		}
	}
}

// ------------------------------------------------------------ known findings

#[derive(Clone, Debug)]
pub struct Finding {
	pub property: String,
	pub sig: String,
	pub status: String,
	pub what: String,
}

pub fn load_findings() -> Vec<Finding> {
	let p = std::env::var("PVH_FINDINGS").map(PathBuf::from).unwrap_or_else(|_| verif_root().join("known_findings.json"));
	let Ok(s) = fs::read_to_string(&p) else { return vec![] };
	let Ok(v) = serde_json::from_str::<Value>(&s) else {
		eprintln!("harness error: cannot parse {}", p.display());
		std::process::exit(2);
	};
	let mut out = vec![];
	for f in v.get("findings").and_then(|f| f.as_array()).cloned().unwrap_or_default() {
		out.push(Finding {
			property: f["property"].as_str().unwrap_or("").to_string(),
			sig: f["signature"].as_str().unwrap_or("").to_string(),
			status: f["status"].as_str().unwrap_or("").to_string(),
			what: f["what"].as_str().unwrap_or("").to_string(),
		});
	}
	out
}

// ------------------------------------------------------------ sanitizer lanes

#[derive(Clone, Debug)]
pub enum LaneKind {
	/// `cargo +nightly miri run -- lane <name> <shard> <nshards>`
	Miri,
	/// `valgrind --error-exitcode=99 pvh lane <name> <shard> <nshards> c`
	Valgrind,
	/// rebuild the harness with -Zsanitizer=address and run `<ID> quick` with it
	AsanQuick,
	/// rebuild with -Cinstrument-coverage, run `<ID> quick`, and report which
	/// lines / error sites of the files under test the workload reached
	Coverage(&'static [&'static str]),
	/// coverage-guided input generation (cargo-fuzz / libFuzzer + ASan) for this
	/// many seconds; every artifact it leaves is re-judged by `pvh classify`
	Fuzz(u64),
}

#[derive(Clone, Debug)]
pub struct Lane {
	pub kind: LaneKind,
	pub name: &'static str,
	/// shard indices to run out of `nshards`
	pub shards: Vec<usize>,
	pub nshards: usize,
}

pub struct LaneResult {
	pub json: Value,
	pub violations: Vec<Violation>,
	pub inconclusive: Vec<String>,
}

fn harness_dir() -> PathBuf {
	// the crate lives next to the binary's target dir: <root>/harness
	std::env::var("PVH_HARNESS").map(PathBuf::from).unwrap_or_else(|_| PathBuf::from("/verif/harness"))
}

fn run_with_timeout(mut cmd: Command, out_path: &Path, timeout: Duration) -> (Option<i32>, bool) {
	let f = File::create(out_path).expect("lane log");
	let f2 = f.try_clone().expect("clone");
	let mut child = match cmd.stdin(Stdio::null()).stdout(f).stderr(f2).spawn() {
		Ok(c) => c,
		Err(_) => return (None, false),
	};
	let t0 = Instant::now();
	loop {
		match child.try_wait() {
			Ok(Some(st)) => return (st.code().or_else(|| st.signal().map(|s| 128 + s)), false),
			Ok(None) => {
				if t0.elapsed() > timeout {
					let _ = child.kill();
					let _ = child.wait();
					return (None, true);
				}
				std::thread::sleep(Duration::from_millis(50));
			}
			Err(_) => return (None, false),
		}
	}
}

pub fn run_lane(id: &str, lane: &Lane, seed: u64) -> LaneResult {
	let t0 = Instant::now();
	let dir = work_dir(id).join("lanes");
	let _ = fs::create_dir_all(&dir);
	let root = verif_root();
	let mut res = LaneResult { json: json!({}), violations: vec![], inconclusive: vec![] };
	let mut evaluations = 0u64;
	let mut exit_codes: BTreeMap<String, u64> = BTreeMap::new();
	let kind_name = match lane.kind {
		LaneKind::Miri => "miri",
		LaneKind::Valgrind => "valgrind-memcheck",
		LaneKind::AsanQuick => "asan",
		LaneKind::Coverage(_) => "llvm-cov",
		LaneKind::Fuzz(_) => "libfuzzer+asan",
	};
	match lane.kind {
		LaneKind::AsanQuick => {
			let tdir = root.join("target").join("asan");
			let log = dir.join("asan-build.log");
			let mut c = Command::new("cargo");
			c.args(["+nightly", "build", "--offline", "-q", "--target", "x86_64-unknown-linux-gnu"]).current_dir(harness_dir()).env("RUSTFLAGS", "-Zsanitizer=address -Cforce-frame-pointers=yes").env("CARGO_TARGET_DIR", &tdir).env("CARGO_NET_OFFLINE", "true");
			let (code, timed_out) = run_with_timeout(c, &log, Duration::from_secs(1800));
			if code != Some(0) {
				res.inconclusive.push(format!("asan lane: build failed (exit {:?}, timeout {}), see {}", code, timed_out, log.display()));
			} else {
				let nested_root = dir.join("asan-root");
				let _ = fs::remove_dir_all(&nested_root);
				let _ = fs::create_dir_all(&nested_root);
				let log = dir.join("asan-run.log");
				let mut c = Command::new(tdir.join("x86_64-unknown-linux-gnu/debug/pvh"));
				c.args(["run", id, "quick"]).env("PVH_ROOT", &nested_root).env("PVH_FINDINGS", root.join("known_findings.json")).env("VERIF_SEED", seed.to_string()).env("ASAN_OPTIONS", "detect_leaks=0:abort_on_error=1:halt_on_error=1").env("PVH_NO_LANES", "1").env("PVH_NO_RLIMIT", "1");
				let (code, timed_out) = run_with_timeout(c, &log, Duration::from_secs(3600));
				*exit_codes.entry(format!("{:?}", code)).or_default() += 1;
				let ev: Option<Value> = fs::read_to_string(nested_root.join("evidence").join(format!("{}.json", id))).ok().and_then(|s| serde_json::from_str(&s).ok());
				if let Some(ev) = &ev {
					evaluations += ev["coverage"]["evaluations"].as_u64().unwrap_or(0);
				}
				if timed_out {
					res.inconclusive.push("asan lane: timed out".into());
				} else if code == Some(1) {
					// violations found by the instrumented run (functional or sanitizer abort)
					let text = fs::read_to_string(&log).unwrap_or_default();
					let mut stderr_all = String::new();
					if let Ok(rd) = fs::read_dir(nested_root.join("work").join(id)) {
						for e in rd.filter_map(|e| e.ok()) {
							if e.file_name().to_string_lossy().starts_with("stderr-") {
								stderr_all.push_str(&fs::read_to_string(e.path()).unwrap_or_default());
							}
						}
					}
					let asan_line = stderr_all.lines().find(|l| l.contains("AddressSanitizer")).unwrap_or("").to_string();
					let first_sig = text.lines().find(|l| l.trim_start().starts_with("signature:")).unwrap_or("").trim().to_string();
					res.violations.push(Violation { sig: format!("lane=asan;{};{}", norm_msg(&asan_line), first_sig), detail: format!("ASan-instrumented run of `{} quick` reported violations; log {}; {}", id, log.display(), asan_line), witness: None, sub: None });
				} else if code != Some(0) {
					res.inconclusive.push(format!("asan lane: nested run exit {:?} (harness error), see {}", code, log.display()));
				}
			}
		}
		LaneKind::Fuzz(secs) => {
			let secs = std::env::var("PVH_FUZZ_SECS").ok().and_then(|s| s.parse::<u64>().ok()).unwrap_or(secs);
			let fuzz_dir = root.join("fuzz");
			let corpus = dir.join("fuzz-corpus");
			let artifacts = dir.join("fuzz-artifacts");
			let _ = fs::remove_dir_all(&artifacts);
			let _ = fs::create_dir_all(&artifacts);
			let mut c = Command::new(std::env::current_exe().expect("exe"));
			c.args(["dump-seeds", corpus.to_str().unwrap()]).env("VERIF_SEED", seed.to_string());
			let _ = run_with_timeout(c, &dir.join("fuzz-seeds.log"), Duration::from_secs(600));
			if !fuzz_dir.join("Cargo.lock").exists() {
				let _ = fs::copy(harness_dir().join("Cargo.lock"), fuzz_dir.join("Cargo.lock"));
			}
			let mut c = Command::new("cargo");
			c.args(["+nightly", "fuzz", "build", "--fuzz-dir"]).arg(&fuzz_dir).current_dir(&fuzz_dir).env("CARGO_NET_OFFLINE", "true").env("CARGO_TARGET_DIR", root.join("target").join("fuzz"));
			let (code, _) = run_with_timeout(c, &dir.join("fuzz-build.log"), Duration::from_secs(3600));
			if code != Some(0) {
				res.inconclusive.push(format!("fuzz lane: build failed (exit {:?}), see {}", code, dir.join("fuzz-build.log").display()));
			} else {
				let jobs = std::thread::available_parallelism().map(|n| n.get()).unwrap_or(4);
				let log = dir.join("fuzz-run.log");
				let mut c = Command::new("cargo");
				c.args(["+nightly", "fuzz", "run", "--fuzz-dir"]).arg(&fuzz_dir).arg("read_any").arg(&corpus).arg("--").args([&format!("-max_total_time={}", secs), "-timeout=20", &format!("-fork={}", jobs), "-max_len=70000", "-len_control=0", "-ignore_crashes=1", "-ignore_timeouts=1", "-ignore_ooms=1", "-rss_limit_mb=6144", "-malloc_limit_mb=2048"]).arg(format!("-artifact_prefix={}/", artifacts.display())).current_dir(&fuzz_dir).env("CARGO_NET_OFFLINE", "true").env("CARGO_TARGET_DIR", root.join("target").join("fuzz"));
				let (code, timed_out) = run_with_timeout(c, &log, Duration::from_secs(secs + 1800));
				*exit_codes.entry(format!("{:?}", code)).or_default() += 1;
				let text = fs::read_to_string(&log).unwrap_or_default();
				let last = text.lines().rev().find(|l| l.contains("oom/timeout/crash")).unwrap_or("").to_string();
				if let Some(n) = last.trim_start_matches('#').split(':').next().and_then(|x| x.trim().parse::<u64>().ok()) {
					evaluations += n;
				}
				if timed_out {
					res.inconclusive.push("fuzz lane: timed out".into());
				}
				// every artifact is re-judged by the harness's own monitors in a child process
				let mut arts: Vec<PathBuf> = fs::read_dir(&artifacts).map(|rd| rd.filter_map(|e| e.ok()).map(|e| e.path()).collect()).unwrap_or_default();
				arts.sort();
				let mut unreproduced = 0;
				for a in arts.iter().take(40) {
					let out = Command::new(std::env::current_exe().expect("exe")).arg("classify").arg(a).output();
					match out {
						Ok(o) => {
							let t = String::from_utf8_lossy(&o.stdout).to_string();
							let sigs: Vec<&str> = t.lines().filter_map(|l| l.strip_prefix("signature: ")).collect();
							if let Some(sig) = o.status.signal() {
								res.violations.push(Violation { sig: format!("lane=fuzz;process-death;signal {}", sig), detail: format!("input {} kills the process (signal {})", a.display(), sig), witness: fs::read(a).ok(), sub: None });
							} else if !sigs.is_empty() {
								for sg in sigs.iter().take(3) {
									res.violations.push(Violation { sig: sg.to_string(), detail: format!("found by coverage-guided fuzzing; input {}", a.display()), witness: fs::read(a).ok(), sub: None });
								}
							} else {
								unreproduced += 1;
							}
						}
						Err(e) => res.inconclusive.push(format!("classify failed: {}", e)),
					}
				}
				if unreproduced > 0 {
					res.inconclusive.push(format!("fuzz lane: {} artifact(s) under {} not reproduced by the monitors (likely wall-clock timeouts/ooms of the fuzzer)", unreproduced, artifacts.display()));
				}
				res.json = json!({"fuzzer_status": last.trim(), "artifacts": arts.len(), "seconds": secs});
			}
		}
		LaneKind::Coverage(files) => {
			let tdir = root.join("target").join("cov");
			let log = dir.join("cov-build.log");
			let mut c = Command::new("cargo");
			c.args(["+nightly", "build", "--offline", "-q"]).current_dir(harness_dir()).env("RUSTFLAGS", "-Cinstrument-coverage").env("LLVM_PROFILE_FILE", dir.join("cov-build-%p-%m.profraw")).env("CARGO_TARGET_DIR", &tdir).env("CARGO_NET_OFFLINE", "true");
			let (code, _) = run_with_timeout(c, &log, Duration::from_secs(1800));
			let sysroot = Command::new("rustc").args(["+nightly", "--print", "sysroot"]).output().ok().map(|o| String::from_utf8_lossy(&o.stdout).trim().to_string()).unwrap_or_default();
			let tools = PathBuf::from(sysroot).join("lib/rustlib/x86_64-unknown-linux-gnu/bin");
			if code != Some(0) || !tools.join("llvm-cov").exists() {
				res.inconclusive.push(format!("coverage lane: build failed or llvm-tools missing (exit {:?}), see {}", code, log.display()));
			} else {
				let nested_root = dir.join("cov-root");
				let _ = fs::remove_dir_all(&nested_root);
				let _ = fs::create_dir_all(&nested_root);
				let bin = tdir.join("debug/pvh");
				let mut c = Command::new(&bin);
				c.args(["run", id, "quick"]).env("PVH_ROOT", &nested_root).env("PVH_FINDINGS", root.join("known_findings.json")).env("VERIF_SEED", seed.to_string()).env("PVH_NO_LANES", "1").env("LLVM_PROFILE_FILE", nested_root.join("prof-%p-%m.profraw"));
				let (code, _) = run_with_timeout(c, &dir.join("cov-run.log"), Duration::from_secs(3600));
				*exit_codes.entry(format!("{:?}", code)).or_default() += 1;
				let raws: Vec<PathBuf> = fs::read_dir(&nested_root).map(|rd| rd.filter_map(|e| e.ok()).map(|e| e.path()).filter(|p| p.extension().map_or(false, |x| x == "profraw")).collect()).unwrap_or_default();
				let merged = nested_root.join("merged.profdata");
				let mut c = Command::new(tools.join("llvm-profdata"));
				c.arg("merge").arg("-sparse").args(&raws).arg("-o").arg(&merged);
				let (mc, _) = run_with_timeout(c, &dir.join("cov-merge.log"), Duration::from_secs(1800));
				let lcov = dir.join("cov.lcov");
				let mut c = Command::new(tools.join("llvm-cov"));
				c.args(["export", "-format=lcov", "-instr-profile"]).arg(&merged).arg(&bin);
				let repo = std::env::var("PVH_REPO").unwrap_or_else(|_| "/repo".into());
				for f in files.iter() {
					c.arg(format!("{}/{}", repo, f));
				}
				let (ec, _) = run_with_timeout(c, &lcov, Duration::from_secs(1800));
				if mc != Some(0) || ec != Some(0) {
					res.inconclusive.push(format!("coverage lane: llvm-profdata/llvm-cov failed ({:?}/{:?})", mc, ec));
				} else {
					// parse lcov: SF:<file>, DA:<line>,<count>
					let text = fs::read_to_string(&lcov).unwrap_or_default();
					let mut per_file: BTreeMap<String, Value> = BTreeMap::new();
					let mut cur = String::new();
					let mut hits: BTreeMap<String, BTreeMap<usize, u64>> = BTreeMap::new();
					for l in text.lines() {
						if let Some(f) = l.strip_prefix("SF:") {
							cur = f.to_string();
						} else if let Some(d) = l.strip_prefix("DA:") {
							let mut it = d.split(',');
							if let (Some(a), Some(b)) = (it.next(), it.next()) {
								if let (Ok(line), Ok(cnt)) = (a.parse::<usize>(), b.parse::<u64>()) {
									*hits.entry(cur.clone()).or_default().entry(line).or_default() += cnt;
								}
							}
						}
					}
					for (f, lines) in &hits {
						let src = fs::read_to_string(f).unwrap_or_default();
						let src_lines: Vec<&str> = src.lines().collect();
						let total = lines.len();
						let hit = lines.values().filter(|c| **c > 0).count();
						let interesting = |t: &str| t.contains("err!(") || t.contains("Err(") || t.contains("unwrap()") || t.contains("assert") || t.contains("expect(") || t.contains("?;") || t.contains("invalid_data");
						let mut reached_sites = 0;
						let mut unreached: Vec<String> = vec![];
						for (ln, cnt) in lines {
							let t = src_lines.get(ln - 1).map(|s| s.trim()).unwrap_or("");
							if interesting(t) {
								if *cnt > 0 {
									reached_sites += 1;
								} else {
									unreached.push(format!("{}: {}", ln, t.chars().take(90).collect::<String>()));
								}
							}
						}
						evaluations += hit as u64;
						per_file.insert(f.replace(&format!("{}/", repo), ""), json!({"lines_instrumented": total, "lines_executed": hit, "error_or_panic_sites_reached": reached_sites, "error_or_panic_sites_not_reached": unreached}));
					}
					res.json = json!({"per_file": per_file});
				}
			}
		}
		LaneKind::Miri | LaneKind::Valgrind => {
			let jobs = std::thread::available_parallelism().map(|n| n.get()).unwrap_or(4);
			let mut pending: Vec<usize> = lane.shards.clone();
			pending.reverse();
			let mut running: Vec<(usize, std::thread::JoinHandle<(Option<i32>, bool)>, PathBuf)> = vec![];
			let mut finished: Vec<(usize, Option<i32>, bool, PathBuf)> = vec![];
			if let LaneKind::Miri = lane.kind {
				// build once (serialised by cargo's lock otherwise)
				let mut c = Command::new("cargo");
				c.args(["+nightly", "miri", "run", "--offline", "-q", "--", "list"]).current_dir(harness_dir()).env("CARGO_TARGET_DIR", root.join("target").join("miri")).env("CARGO_NET_OFFLINE", "true").env("MIRIFLAGS", "-Zmiri-disable-isolation");
				let (code, _) = run_with_timeout(c, &dir.join("miri-build.log"), Duration::from_secs(1800));
				if code != Some(0) {
					res.inconclusive.push(format!("miri lane: build failed (exit {:?}), see {}", code, dir.join("miri-build.log").display()));
					pending.clear();
				}
			}
			while !pending.is_empty() || !running.is_empty() {
				while running.len() < jobs && !pending.is_empty() {
					let shard = pending.pop().unwrap();
					let log = dir.join(format!("{}-{}-{}.log", kind_name, lane.name, shard));
					let mut c;
					match lane.kind {
						LaneKind::Miri => {
							c = Command::new("cargo");
							c.args(["+nightly", "miri", "run", "--offline", "-q", "--", "lane", lane.name, &shard.to_string(), &lane.nshards.to_string()]).current_dir(harness_dir()).env("CARGO_TARGET_DIR", root.join("target").join("miri")).env("CARGO_NET_OFFLINE", "true").env("MIRIFLAGS", format!("-Zmiri-disable-isolation -Zmiri-seed={}", shard));
						}
						_ => {
							c = Command::new("valgrind");
							c.args(["-q", "--error-exitcode=99", "--errors-for-leak-kinds=none"]).arg(std::env::current_exe().expect("exe")).args(["lane", lane.name, &shard.to_string(), &lane.nshards.to_string(), "c"]);
						}
					}
					let log2 = log.clone();
					let h = std::thread::spawn(move || run_with_timeout(c, &log2, Duration::from_secs(3600)));
					running.push((shard, h, log));
				}
				let mut still = vec![];
				for (shard, h, log) in running.drain(..) {
					if h.is_finished() {
						let (code, to) = h.join().unwrap_or((None, false));
						finished.push((shard, code, to, log));
					} else {
						still.push((shard, h, log));
					}
				}
				running = still;
				std::thread::sleep(Duration::from_millis(100));
			}
			for (shard, code, timed_out, log) in finished {
				*exit_codes.entry(format!("{:?}", code)).or_default() += 1;
				let text = fs::read_to_string(&log).unwrap_or_default();
				for l in text.lines() {
					if let Some(i) = l.find("evaluations=") {
						evaluations += l[i + 12..].split_whitespace().next().and_then(|x| x.parse::<u64>().ok()).unwrap_or(0);
					}
				}
				if timed_out {
					res.inconclusive.push(format!("{} lane {} shard {}: timed out", kind_name, lane.name, shard));
					continue;
				}
				let ub = text.lines().find(|l| l.contains("Undefined Behavior") || l.contains("error: memory leaked") || l.contains("Invalid read") || l.contains("Invalid write") || l.contains("uninitialised") || l.contains("Invalid free") || l.contains("Mismatched free"));
				let func = text.lines().find(|l| l.starts_with("LANE-VIOLATION"));
				if let Some(l) = ub {
					res.violations.push(Violation { sig: format!("lane={};{};{}", kind_name, lane.name, norm_msg(l.trim())), detail: format!("{} reported: {} (lane {} shard {}/{}, log {})", kind_name, l.trim(), lane.name, shard, lane.nshards, log.display()), witness: None, sub: Some(shard as u64) });
				} else if let Some(l) = func {
					res.violations.push(Violation { sig: format!("lane={};{};functional", kind_name, lane.name), detail: format!("{} (lane {} shard {}/{}, log {})", l, lane.name, shard, lane.nshards, log.display()), witness: None, sub: Some(shard as u64) });
				} else if code == Some(99) {
					res.violations.push(Violation { sig: format!("lane={};{};memcheck-error", kind_name, lane.name), detail: format!("valgrind memcheck reported errors (lane {} shard {}, log {})", lane.name, shard, log.display()), witness: None, sub: Some(shard as u64) });
				} else if code != Some(0) {
					// e.g. Miri "unsupported operation": the runtime could not execute the workload
					let why = text.lines().find(|l| l.contains("unsupported operation") || l.starts_with("error")).unwrap_or("");
					res.inconclusive.push(format!("{} lane {} shard {}: exit {:?} {} (log {})", kind_name, lane.name, shard, code, why.trim(), log.display()));
				}
			}
		}
	}
	let extra = res.json.clone();
	res.json = json!({"lane": lane.name, "runtime": kind_name, "shards_run": lane.shards.len(), "of_shards": lane.nshards, "evaluations_under_runtime": evaluations, "exit_codes": exit_codes, "violations": res.violations.len(), "inconclusive": res.inconclusive.len(), "wall_s": t0.elapsed().as_secs_f64()});
	if let (Some(o), Some(e)) = (res.json.as_object_mut(), extra.as_object()) {
		for (k, v) in e {
			o.insert(k.clone(), v.clone());
		}
	}
	res
}

// ------------------------------------------------------------ aggregation

#[derive(Default)]
pub struct Aggregate {
	pub cases_done: u64,
	pub evals: u64,
	pub classes: BTreeMap<String, u64>,
	pub violations: Vec<(usize, Violation, Option<String>)>,
	pub inconclusive: Vec<String>,
	pub samples: Vec<Value>,
	pub counters: BTreeMap<String, u64>,
	pub observed: BTreeMap<String, BTreeSet<String>>,
	pub deaths: Vec<String>,
	pub lanes: Vec<Value>,
}

fn work_dir(id: &str) -> PathBuf {
	verif_root().join("work").join(id)
}

fn replay_dir(id: &str) -> PathBuf {
	verif_root().join("replays").join(id)
}

/// RLIMIT_AS for this process. Not under Miri (no FFI) and not when PVH_NO_RLIMIT is set
/// (ASan and valgrind need terabytes of address space for their shadow memory).
pub fn limit_address_space(bytes: u64) -> bool {
	let _ = bytes;
	if std::env::var_os("PVH_NO_RLIMIT").is_some() {
		return false;
	}
	#[cfg(all(target_os = "linux", not(miri)))]
	{
		extern "C" {
			fn setrlimit(resource: i32, rlim: *const [u64; 2]) -> i32;
		}
		const RLIMIT_AS: i32 = 9;
		let r = [bytes, bytes];
		return unsafe { setrlimit(RLIMIT_AS, &r) == 0 };
	}
	#[allow(unreachable_code)]
	false
}

/// Size named by the runtime's "memory allocation of N bytes failed" message.
fn failed_alloc_size(tail: &str) -> Option<u64> {
	let i = tail.find("memory allocation of ")? + "memory allocation of ".len();
	tail[i..].split(' ').next()?.parse().ok()
}

pub fn worker_main(mon: &dyn Monitor, tier: Tier, seed: u64, shard: usize, nshards: usize, from: usize) {
	install_panic_hook();
	install_logger();
	if let Some(b) = mon.address_space_limit() {
		limit_address_space(b);
	}
	// process environment as a dimension: odd shards run with the variables that build and
	// packaging tools commonly set or honour; nothing the library does may depend on them
	if shard % 2 == 1 {
		std::env::set_var("SOURCE_DATE_EPOCH", "1700000000");
		std::env::set_var("TZ", "Pacific/Kiritimati");
		std::env::set_var("LC_ALL", "tr_TR.UTF-8");
		std::env::set_var("LANG", "tr_TR.UTF-8");
	} else {
		std::env::remove_var("SOURCE_DATE_EPOCH");
	}
	let dir = work_dir(mon.id());
	let mut log = OpenOptions::new().create(true).append(true).open(dir.join(format!("shard-{}.log", shard))).expect("open shard log");
	let progress = OpenOptions::new().create(true).write(true).open(dir.join(format!("progress-{}", shard))).expect("open progress");
	let mut ctx = Ctx::new(tier, seed);
	ctx.progress = Some(progress);
	let n = mon.n_cases(&ctx);
	let mut idx = shard;
	while idx < n {
		if idx >= from {
			ctx.cur_idx.store(idx as u64, Relaxed);
			ctx.mark(u64::MAX);
			set_logging_for_case(idx);
			let _ = writeln!(log, "{}", json!({"t": "B", "i": idx}));
			let out = match guard(|| mon.run(&ctx, idx)) {
				Ok(o) => o,
				Err(p) => {
					// a panic that escaped the monitor's own guards: the library
					// panicked where the monitor did not expect it to be able to
					let mut o = CaseOut::default();
					o.evals = 1;
					o.violate(format!("panic-escaped;{};{}", norm_loc(&p.loc), norm_msg(&p.msg)), format!("panic at {}: {}", p.loc, p.msg), None);
					o
				}
			};
			let mut viol = vec![];
			for (k, v) in out.violations.iter().enumerate() {
				let mut replay = None;
				let rdir = replay_dir(mon.id());
				let _ = fs::create_dir_all(&rdir);
				let base = rdir.join(format!("{}-{}-{}-{}", tier.name(), seed, idx, k));
				if let Some(w) = &v.witness {
					let _ = fs::write(base.with_extension("bin"), w);
				}
				let desc = json!({"property": mon.id(), "tier": tier.name(), "seed": seed, "case": idx, "sub": v.sub, "signature": v.sig, "detail": v.detail,
					"witness_bytes": v.witness.as_ref().map(|_| base.with_extension("bin").display().to_string())});
				if fs::write(base.with_extension("json"), serde_json::to_string_pretty(&desc).unwrap()).is_ok() {
					replay = Some(base.with_extension("json").display().to_string());
				}
				viol.push(json!({"sig": v.sig, "detail": v.detail, "replay": replay, "sub": v.sub}));
			}
			let observed: BTreeMap<&String, Vec<&String>> = out.observed.iter().map(|(k, v)| (k, v.iter().collect())).collect();
			let _ = writeln!(
				log,
				"{}",
				json!({"t": "E", "i": idx, "evals": out.evals, "classes": out.classes, "viol": viol, "inc": out.inconclusive, "sample": out.sample, "counters": out.counters, "observed": observed})
			);
			if out.abandon_worker {
				// a thread of this process is stuck in the library under test
				let _ = writeln!(log, "{}", json!({"t": "RESPAWN", "next": idx + nshards}));
				let _ = log.flush();
				std::process::exit(0);
			}
		}
		idx += nshards;
	}
	let _ = writeln!(log, "{}", json!({"t": "DONE"}));
}

struct Slot {
	shard: usize,
	child: Child,
	started: Instant,
}

fn spawn_worker(mon: &dyn Monitor, tier: Tier, seed: u64, shard: usize, nshards: usize, from: usize) -> Child {
	let exe = std::env::current_exe().expect("current_exe");
	let errf = OpenOptions::new().create(true).append(true).open(work_dir(mon.id()).join(format!("stderr-{}", shard))).expect("stderr file");
	Command::new(exe)
		.args(["worker", mon.id(), tier.name(), &seed.to_string(), &shard.to_string(), &nshards.to_string(), &from.to_string()])
		.stdin(Stdio::null())
		.stdout(Stdio::null())
		.stderr(errf)
		.spawn()
		.expect("spawn worker")
}

fn read_progress(id: &str, shard: usize) -> Option<(u64, u64)> {
	let b = fs::read(work_dir(id).join(format!("progress-{}", shard))).ok()?;
	if b.len() < 16 {
		return None;
	}
	Some((u64::from_le_bytes(b[..8].try_into().unwrap()), u64::from_le_bytes(b[8..16].try_into().unwrap())))
}

fn shard_state(id: &str, shard: usize) -> (bool, Option<usize>, Option<usize>) {
	// returns (done, in-flight case index if a B has no E, respawn-from request)
	let Ok(f) = File::open(work_dir(id).join(format!("shard-{}.log", shard))) else { return (false, None, None) };
	let mut open: Option<usize> = None;
	let mut done = false;
	let mut respawn: Option<usize> = None;
	for line in BufReader::new(f).lines().map_while(|l| l.ok()) {
		let Ok(v) = serde_json::from_str::<Value>(&line) else { continue };
		match v["t"].as_str() {
			Some("B") => {
				open = v["i"].as_u64().map(|x| x as usize);
				respawn = None;
			}
			Some("E") => open = None,
			Some("RESPAWN") => respawn = v["next"].as_u64().map(|x| x as usize),
			Some("DONE") => done = true,
			_ => {}
		}
	}
	(done, open, respawn)
}

pub fn run_check(mon: &dyn Monitor, tier: Tier, seed: u64) -> i32 {
	let t0 = Instant::now();
	let id = mon.id();
	let dir = work_dir(id);
	let _ = fs::remove_dir_all(&dir);
	fs::create_dir_all(&dir).expect("create work dir");
	let _ = fs::remove_dir_all(replay_dir(id));
	let ctx = Ctx::new(tier, seed);
	let n = mon.n_cases(&ctx);
	let nshards = std::env::var("PVH_JOBS").ok().and_then(|s| s.parse().ok()).unwrap_or_else(|| std::thread::available_parallelism().map(|n| n.get()).unwrap_or(4)).min(n.max(1));
	let mut agg = Aggregate::default();
	let mut slots: Vec<Slot> = (0..nshards).map(|s| Slot { shard: s, child: spawn_worker(mon, tier, seed, s, nshards, 0), started: Instant::now() }).collect();
	let deadline = mon.watchdog(tier);
	let mut respawns = 0usize;
	while !slots.is_empty() {
		std::thread::sleep(Duration::from_millis(20));
		let mut next_slots = vec![];
		for mut s in slots.drain(..) {
			match s.child.try_wait() {
				Ok(None) => {
					if s.started.elapsed() > deadline {
						let _ = s.child.kill();
						let _ = s.child.wait();
						agg.inconclusive.push(format!("shard {}: wall-clock watchdog {:?} fired (inconclusive, not a violation)", s.shard, deadline));
					} else {
						next_slots.push(s);
					}
				}
				Ok(Some(status)) => {
					let (done, open, respawn) = shard_state(id, s.shard);
					if done {
						continue;
					}
					if let (None, Some(next)) = (open, respawn) {
						// the worker retired itself because a monitored thread was stuck
						respawns += 1;
						if respawns < 2000 {
							next_slots.push(Slot { shard: s.shard, child: spawn_worker(mon, tier, seed, s.shard, nshards, next), started: Instant::now() });
						}
						continue;
					}
					// the worker died mid-case
					let how = match status.signal() {
						Some(sig) => format!("signal {}", sig),
						None => format!("exit code {:?}", status.code()),
					};
					let stderr_tail = fs::read_to_string(dir.join(format!("stderr-{}", s.shard))).unwrap_or_default();
					let mut tail: String = stderr_tail.lines().rev().take(4).collect::<Vec<_>>().into_iter().rev().collect::<Vec<_>>().join(" | ");
					// the runtime's own last words may be followed by a backtrace
					if let Some(l) = stderr_tail.lines().rev().take(80).find(|l| l.contains("memory allocation of ") || l.contains("overflowed its stack")) {
						if !tail.contains(l) {
							tail = format!("{} | {}", l.trim(), tail);
						}
					}
					let Some(i) = open else {
						agg.inconclusive.push(format!("shard {} died outside a case ({}): {}", s.shard, how, tail));
						continue;
					};
					let sub = read_progress(id, s.shard).filter(|(pi, _)| *pi == i as u64).map(|(_, sub)| sub).filter(|s| *s != u64::MAX);
					let kind = if tail.contains("overflowed its stack") { "stack-overflow" } else if tail.contains("memory allocation") { "alloc-failure" } else { "process-death" };
					agg.deaths.push(format!("case {} sub {:?}: {} ({})", i, sub, how, tail));
					// An allocation failure is a verdict only where the check runs its workers under a
					// deliberate address-space limit, PVH_NO_RLIMIT is not set, and the block asked for
					// is far larger than anything the harness itself allocates for that check's inputs.
					let deliberate = mon.address_space_limit().is_some() && std::env::var_os("PVH_NO_RLIMIT").is_none() && failed_alloc_size(&tail).map_or(false, |n| n >= 16 << 20);
					if kind == "alloc-failure" && !deliberate {
						agg.inconclusive.push(format!("case {}: allocation failure abort ({})", i, tail));
					} else if mon.death_is_violation() {
						let rdir = replay_dir(id);
						let _ = fs::create_dir_all(&rdir);
						let path = rdir.join(format!("{}-{}-{}-death.json", tier.name(), seed, i));
						let sig = format!("{};{}", kind, how);
						let desc = json!({"property": id, "tier": tier.name(), "seed": seed, "case": i, "sub": sub, "signature": sig, "detail": tail});
						let _ = fs::write(&path, serde_json::to_string_pretty(&desc).unwrap());
						agg.violations.push((i, Violation { sig, detail: format!("worker process died during this case: {} — {}", how, tail), witness: None, sub }, Some(path.display().to_string())));
					} else {
						agg.inconclusive.push(format!("case {}: worker died ({})", i, how));
					}
					respawns += 1;
					if respawns < 2000 {
						next_slots.push(Slot { shard: s.shard, child: spawn_worker(mon, tier, seed, s.shard, nshards, i + 1), started: Instant::now() });
					} else {
						agg.inconclusive.push("too many worker deaths; giving up on respawn".into());
					}
				}
				Err(e) => agg.inconclusive.push(format!("wait error: {}", e)),
			}
		}
		slots = next_slots;
	}
	// read the logs
	for shard in 0..nshards {
		let Ok(f) = File::open(dir.join(format!("shard-{}.log", shard))) else { continue };
		for line in BufReader::new(f).lines().map_while(|l| l.ok()) {
			let Ok(v) = serde_json::from_str::<Value>(&line) else { continue };
			if v["t"] != "E" {
				continue;
			}
			agg.cases_done += 1;
			agg.evals += v["evals"].as_u64().unwrap_or(0);
			for c in v["classes"].as_array().cloned().unwrap_or_default() {
				*agg.classes.entry(c.as_str().unwrap_or("").to_string()).or_default() += 1;
			}
			for x in v["viol"].as_array().cloned().unwrap_or_default() {
				agg.violations.push((
					v["i"].as_u64().unwrap_or(0) as usize,
					Violation { sig: x["sig"].as_str().unwrap_or("").into(), detail: x["detail"].as_str().unwrap_or("").into(), witness: None, sub: x["sub"].as_u64() },
					x["replay"].as_str().map(String::from),
				));
			}
			for x in v["inc"].as_array().cloned().unwrap_or_default() {
				if agg.inconclusive.len() < 200 {
					agg.inconclusive.push(x.as_str().unwrap_or("").to_string());
				} else {
					*agg.counters.entry("inconclusive_not_listed".into()).or_default() += 1;
				}
			}
			if !v["sample"].is_null() && (agg.samples.len() < 6 || (v["i"].as_u64().unwrap_or(0) % 97 == 0 && agg.samples.len() < 12)) {
				agg.samples.push(v["sample"].clone());
			}
			if let Some(o) = v["counters"].as_object() {
				for (k, n) in o {
					*agg.counters.entry(k.clone()).or_default() += n.as_u64().unwrap_or(0);
				}
			}
			if let Some(o) = v["observed"].as_object() {
				for (k, arr) in o {
					let set = agg.observed.entry(k.clone()).or_default();
					for s in arr.as_array().cloned().unwrap_or_default() {
						if set.len() < 2000 {
							set.insert(s.as_str().unwrap_or("").to_string());
						}
					}
				}
			}
		}
	}
	// sanitizer lanes (thorough tier; PVH_LANES=1 forces them, PVH_NO_LANES=1 disables)
	let want_lanes = (tier == Tier::Thorough || std::env::var("PVH_LANES").is_ok()) && std::env::var("PVH_NO_LANES").is_err();
	if want_lanes {
		for lane in mon.lanes(tier) {
			if let Ok(only) = std::env::var("PVH_ONLY_LANE") {
				if only != lane.name {
					continue;
				}
			}
			let r = run_lane(id, &lane, seed);
			println!("[{}] lane {}", id, r.json);
			agg.lanes.push(r.json.clone());
			for v in r.violations {
				let rdir = replay_dir(id);
				let _ = fs::create_dir_all(&rdir);
				let path = rdir.join(format!("{}-{}-lane-{}-{}.json", tier.name(), seed, lane.name, agg.violations.len()));
				let _ = fs::write(&path, serde_json::to_string_pretty(&json!({"property": id, "lane": lane.name, "signature": v.sig, "detail": v.detail})).unwrap());
				agg.violations.push((usize::MAX, v, Some(path.display().to_string())));
			}
			for i in r.inconclusive {
				agg.inconclusive.push(i);
			}
		}
	}
	finish(mon, tier, seed, n, agg, t0)
}

fn finish(mon: &dyn Monitor, tier: Tier, seed: u64, n_cases: usize, agg: Aggregate, t0: Instant) -> i32 {
	let id = mon.id();
	let findings = load_findings();
	let open: Vec<&Finding> = findings.iter().filter(|f| f.property == id && f.status == "open").collect();
	let mut known_hits: BTreeMap<String, u64> = BTreeMap::new();
	let mut new_viol: Vec<&(usize, Violation, Option<String>)> = vec![];
	for v in &agg.violations {
		if let Some(f) = open.iter().find(|f| f.sig == v.1.sig) {
			*known_hits.entry(f.sig.clone()).or_default() += 1;
		} else {
			new_viol.push(v);
		}
	}
	let distinct = agg.classes.len() as u64;
	let mut harness_errors: Vec<String> = vec![];
	if agg.evals == 0 {
		harness_errors.push("no conclusive evaluations".into());
	}
	if (distinct as usize) < mon.min_classes(tier) {
		harness_errors.push(format!("only {} distinct classes observed, floor is {}", distinct, mon.min_classes(tier)));
	}
	if (agg.cases_done as usize) < n_cases && agg.deaths.is_empty() {
		harness_errors.push(format!("only {} of {} cases completed", agg.cases_done, n_cases));
	}
	let mut samples = agg.samples.clone();
	if samples.is_empty() {
		samples.push(json!({"note": "no case sample recorded"}));
	}
	let mut class_hist: Vec<(&String, &u64)> = agg.classes.iter().collect();
	class_hist.sort_by(|a, b| b.1.cmp(a.1));
	let mut coverage = json!({
		"evaluations": agg.evals.max(if harness_errors.is_empty() {1} else {0}),
		"distinct_nontrivial": distinct,
		"rule": mon.rule(),
		"samples": samples,
		"cases_planned": n_cases,
		"cases_completed": agg.cases_done,
		"inconclusive": agg.inconclusive.len() as u64 + agg.counters.get("inconclusive_not_listed").copied().unwrap_or(0),
		"inconclusive_reasons": agg.inconclusive.iter().take(10).collect::<Vec<_>>(),
		"class_histogram_top": class_hist.iter().take(40).map(|(k, v)| json!([k, v])).collect::<Vec<_>>(),
		"counters": agg.counters,
		"observed": agg.observed.iter().map(|(k, v)| (k.clone(), json!({"distinct": v.len(), "values": v.iter().take(60).collect::<Vec<_>>()}))).collect::<BTreeMap<_, _>>(),
		"process_deaths": agg.deaths,
		"sanitizer_lanes": agg.lanes,
		"known_findings_reobserved": known_hits,
		"exhaustive": mon.exhaustive(tier),
		"harness_errors": harness_errors,
	});
	if let (Some(c), Some(e)) = (coverage.as_object_mut(), mon.extra_coverage(&agg).as_object()) {
		for (k, v) in e {
			c.insert(k.clone(), v.clone());
		}
	}
	let ev = json!({
		"property_id": id,
		"tier": tier.name(),
		"seed": seed,
		"level": mon.level(),
		"coverage": coverage,
		"assumptions": mon.assumptions(),
		"wall_s": t0.elapsed().as_secs_f64(),
		"violations": new_viol.len() + known_hits.len(),
		"new_violations": new_viol.iter().take(20).map(|v| json!({"case": v.0, "signature": v.1.sig, "detail": v.1.detail, "replay": v.2})).collect::<Vec<_>>(),
	});
	let evdir = verif_root().join("evidence");
	let _ = fs::create_dir_all(&evdir);
	write_atomic(&evdir.join(format!("{}.json", id)), &serde_json::to_string_pretty(&ev).unwrap());

	println!(
		"[{}] tier={} seed={} cases={}/{} evaluations={} distinct_classes={} inconclusive={} wall={:.1}s",
		id,
		tier.name(),
		seed,
		agg.cases_done,
		n_cases,
		agg.evals,
		distinct,
		agg.inconclusive.len(),
		t0.elapsed().as_secs_f64()
	);
	for f in &open {
		if let Some(n) = known_hits.get(&f.sig) {
			println!("KNOWN-FINDING: property={} {} [signature: {}; re-observed {}x]", id, f.what, f.sig, n);
		}
	}
	if !new_viol.is_empty() {
		let mut seen = BTreeSet::new();
		for v in &new_viol {
			if seen.insert(v.1.sig.clone()) && seen.len() <= 10 {
				println!("VIOLATION property={} replay={}", id, v.2.clone().unwrap_or_else(|| "(none)".into()));
				println!("  signature: {}", v.1.sig);
				println!("  detail: {}", v.1.detail.chars().take(600).collect::<String>());
			}
		}
		println!("[{}] {} violating evaluations, {} distinct signatures", id, new_viol.len(), seen.len());
		return 1;
	}
	if !harness_errors.is_empty() {
		println!("HARNESS-ERROR property={} {}", id, harness_errors.join("; "));
		for r in agg.inconclusive.iter().take(5) {
			println!("  inconclusive: {}", r);
		}
		return 2;
	}
	0
}

fn write_atomic(path: &Path, s: &str) {
	let tmp = path.with_extension("json.tmp");
	if fs::write(&tmp, s).is_ok() {
		let _ = fs::rename(&tmp, path);
	}
}

/// Re-run exactly one recorded case (and sub-evaluation) in a child process so
/// that a death is observed, and report what it does now.
pub fn replay(mon: &dyn Monitor, desc: &Value, in_child: bool) -> i32 {
	let tier = if desc["tier"] == "thorough" { Tier::Thorough } else { Tier::Quick };
	let seed = desc["seed"].as_u64().unwrap_or(0);
	let idx = desc["case"].as_u64().unwrap_or(0) as usize;
	if !in_child {
		let exe = std::env::current_exe().expect("exe");
		let tmp = work_dir(mon.id()).join("replay-desc.json");
		let _ = fs::create_dir_all(work_dir(mon.id()));
		let _ = fs::write(&tmp, desc.to_string());
		let st = Command::new(exe).args(["replay-child", tmp.to_str().unwrap()]).status().expect("spawn");
		if let Some(sig) = st.signal() {
			println!("VIOLATION property={} replay={} (process died with signal {})", mon.id(), tmp.display(), sig);
			return 1;
		}
		return st.code().unwrap_or(2);
	}
	install_panic_hook();
	install_logger();
	if let Some(b) = mon.address_space_limit() {
		limit_address_space(b);
	}
	set_logging_for_case(idx);
	let mut ctx = Ctx::new(tier, seed);
	ctx.only_sub = desc["sub"].as_u64();
	let out = match guard(|| mon.run(&ctx, idx)) {
		Ok(o) => o,
		Err(p) => {
			println!("VIOLATION property={} replay=(this) panic escaped at {}: {}", mon.id(), p.loc, p.msg);
			return 1;
		}
	};
	println!("[{}] replay case {} sub {:?}: evaluations={} violations={}", mon.id(), idx, ctx.only_sub, out.evals, out.violations.len());
	for v in &out.violations {
		println!("VIOLATION property={} replay=(this)\n  signature: {}\n  detail: {}", mon.id(), v.sig, v.detail);
	}
	if out.violations.is_empty() {
		0
	} else {
		1
	}
}
