//! Independent Shift-JIS reference built from the committed cp932 table
//! (tools/gen_cp932.py, CPython codec), with the WHATWG deviation for the four
//! single bytes 0xA0, 0xFD, 0xFE, 0xFF (errors).

static TBL: &[u8] = include_bytes!("../data/cp932.tbl");

pub struct Sjis {
	single: Vec<Option<String>>,
	pair: Vec<Option<String>>,
}

impl Sjis {
	pub fn load() -> Sjis {
		let mut recs: Vec<Option<String>> = Vec::with_capacity(256 + 65536);
		let mut p = 0;
		while p < TBL.len() {
			let l = TBL[p] as usize;
			p += 1;
			if l == 255 {
				recs.push(None);
			} else {
				recs.push(Some(String::from_utf8(TBL[p..p + l].to_vec()).expect("table utf8")));
				p += l;
			}
		}
		assert_eq!(recs.len(), 256 + 65536, "cp932 table size");
		let pair = recs.split_off(256);
		let mut single = recs;
		for b in [0xA0usize, 0xFD, 0xFE, 0xFF] {
			single[b] = None;
		}
		Sjis { single, pair }
	}

	/// Reference decode of a whole byte string (no NUL handling): None = invalid.
	pub fn decode(&self, s: &[u8]) -> Option<String> {
		let mut out = String::new();
		let mut i = 0;
		while i < s.len() {
			let b = s[i] as usize;
			if let Some(c) = &self.single[b] {
				out.push_str(c);
				i += 1;
				continue;
			}
			if matches!(b, 0xA0 | 0xFD | 0xFE | 0xFF) || i + 1 >= s.len() {
				return None;
			}
			match &self.pair[b * 256 + s[i + 1] as usize] {
				Some(c) if c.chars().count() == 1 => {
					out.push_str(c);
					i += 2;
				}
				_ => return None,
			}
		}
		Some(out)
	}

	/// Reference decode of a fixed-width name field: bytes up to the first NUL.
	pub fn decode_field(&self, field: &[u8]) -> Option<String> {
		let n = field.iter().position(|b| *b == 0).unwrap_or(field.len());
		self.decode(&field[..n])
	}
}

/// The five normalisation rules of the property.
pub fn normalize_char(c: char) -> char {
	match c as u32 {
		0xFF01..=0xFF5E => char::from_u32(c as u32 - 0xFEE0).unwrap(),
		0x3000 => ' ',
		0x2019 => '\'',
		0x201D => '"',
		_ => c,
	}
}
