//! Hand-transcribed Slippi replay layout tables (from the public Slippi SPEC,
//! https://github.com/project-slippi/slippi-wiki/blob/master/SPEC.md), NOT
//! derived from peppi's `gen/resources/frames.json` nor from `src/frame`.
//! Offsets in the tables are the SPEC's, i.e. they count the command byte
//! (payload offset = SPEC offset - 1). Field paths are the public names peppi
//! exposes (struct fields of `peppi::frame::transpose::*`, which are also the
//! Arrow field names).

pub type V = (u8, u8);

pub fn gte(v: V, m: V) -> bool {
	v.0 > m.0 || (v.0 == m.0 && v.1 >= m.1)
}

#[derive(Clone, Copy, Debug, PartialEq, Eq)]
pub enum Ty {
	U8,
	I8,
	U16,
	U32,
	I32,
	F32,
}

impl Ty {
	pub fn size(self) -> usize {
		match self {
			Ty::U8 | Ty::I8 => 1,
			Ty::U16 => 2,
			Ty::U32 | Ty::I32 | Ty::F32 => 4,
		}
	}
	pub fn arrow_name(self) -> &'static str {
		match self {
			Ty::U8 => "UInt8",
			Ty::I8 => "Int8",
			Ty::U16 => "UInt16",
			Ty::U32 => "UInt32",
			Ty::I32 => "Int32",
			Ty::F32 => "Float32",
		}
	}
	/// Read big-endian bits at `b[off..]`, zero-extended into u64 (no sign
	/// extension: values are compared as raw bit patterns of their width).
	pub fn read(self, b: &[u8], off: usize) -> u64 {
		let mut x = 0u64;
		for i in 0..self.size() {
			x = (x << 8) | b[off + i] as u64;
		}
		x
	}
}

#[derive(Clone, Copy, Debug)]
pub struct Field {
	/// dotted public path, e.g. "position.x" or "state_flags.0"
	pub path: &'static str,
	pub ty: Ty,
	/// SPEC offset (counting the command byte)
	pub off: usize,
	pub since: V,
}

const fn f(path: &'static str, ty: Ty, off: usize, since: V) -> Field {
	Field { path, ty, off, since }
}

use Ty::*;

/// Pre-Frame Update (0x37). Header: frame i32 @0x1, port u8 @0x5, follower u8 @0x6.
pub const PRE: &[Field] = &[
	f("random_seed", U32, 0x07, (0, 1)),
	f("state", U16, 0x0B, (0, 1)),
	f("position.x", F32, 0x0D, (0, 1)),
	f("position.y", F32, 0x11, (0, 1)),
	f("direction", F32, 0x15, (0, 1)),
	f("joystick.x", F32, 0x19, (0, 1)),
	f("joystick.y", F32, 0x1D, (0, 1)),
	f("cstick.x", F32, 0x21, (0, 1)),
	f("cstick.y", F32, 0x25, (0, 1)),
	f("triggers", F32, 0x29, (0, 1)),
	f("buttons", U32, 0x2D, (0, 1)),
	f("buttons_physical", U16, 0x31, (0, 1)),
	f("triggers_physical.l", F32, 0x33, (0, 1)),
	f("triggers_physical.r", F32, 0x37, (0, 1)),
	f("raw_analog_x", I8, 0x3B, (1, 2)),
	f("percent", F32, 0x3C, (1, 4)),
	f("raw_analog_y", I8, 0x40, (3, 15)),
];

/// Post-Frame Update (0x38). Header as Pre.
pub const POST: &[Field] = &[
	f("character", U8, 0x07, (0, 1)),
	f("state", U16, 0x08, (0, 1)),
	f("position.x", F32, 0x0A, (0, 1)),
	f("position.y", F32, 0x0E, (0, 1)),
	f("direction", F32, 0x12, (0, 1)),
	f("percent", F32, 0x16, (0, 1)),
	f("shield", F32, 0x1A, (0, 1)),
	f("last_attack_landed", U8, 0x1E, (0, 1)),
	f("combo_count", U8, 0x1F, (0, 1)),
	f("last_hit_by", U8, 0x20, (0, 1)),
	f("stocks", U8, 0x21, (0, 1)),
	f("state_age", F32, 0x22, (0, 2)),
	f("state_flags.0", U8, 0x26, (2, 0)),
	f("state_flags.1", U8, 0x27, (2, 0)),
	f("state_flags.2", U8, 0x28, (2, 0)),
	f("state_flags.3", U8, 0x29, (2, 0)),
	f("state_flags.4", U8, 0x2A, (2, 0)),
	f("misc_as", F32, 0x2B, (2, 0)),
	f("airborne", U8, 0x2F, (2, 0)),
	f("ground", U16, 0x30, (2, 0)),
	f("jumps", U8, 0x32, (2, 0)),
	f("l_cancel", U8, 0x33, (2, 0)),
	f("hurtbox_state", U8, 0x34, (2, 1)),
	f("velocities.self_x_air", F32, 0x35, (3, 5)),
	f("velocities.self_y", F32, 0x39, (3, 5)),
	f("velocities.knockback_x", F32, 0x3D, (3, 5)),
	f("velocities.knockback_y", F32, 0x41, (3, 5)),
	f("velocities.self_x_ground", F32, 0x45, (3, 5)),
	f("hitlag", F32, 0x49, (3, 8)),
	f("animation_index", U32, 0x4D, (3, 11)),
	f("last_hit_by_instance", U16, 0x51, (3, 16)),
	f("instance_id", U16, 0x53, (3, 16)),
];

/// Frame Start (0x3A), exists >= 2.2. Header: frame i32 @0x1.
pub const FSTART: &[Field] = &[
	f("random_seed", U32, 0x05, (2, 2)),
	f("scene_frame_counter", U32, 0x09, (3, 10)),
];

/// Item Update (0x3B), exists >= 3.0. Header: frame i32 @0x1.
pub const ITEM: &[Field] = &[
	f("type", U16, 0x05, (3, 0)),
	f("state", U8, 0x07, (3, 0)),
	f("direction", F32, 0x08, (3, 0)),
	f("velocity.x", F32, 0x0C, (3, 0)),
	f("velocity.y", F32, 0x10, (3, 0)),
	f("position.x", F32, 0x14, (3, 0)),
	f("position.y", F32, 0x18, (3, 0)),
	f("damage", U16, 0x1C, (3, 0)),
	f("timer", F32, 0x1E, (3, 0)),
	f("id", U32, 0x22, (3, 0)),
	f("misc.0", U8, 0x26, (3, 2)),
	f("misc.1", U8, 0x27, (3, 2)),
	f("misc.2", U8, 0x28, (3, 2)),
	f("misc.3", U8, 0x29, (3, 2)),
	f("owner", I8, 0x2A, (3, 6)),
	f("instance_id", U16, 0x2B, (3, 16)),
];

/// Frame Bookend (0x3C), exists >= 3.0. Header: frame i32 @0x1.
pub const FEND: &[Field] = &[f("latest_finalized_frame", I32, 0x05, (3, 7))];

#[derive(Clone, Copy, Debug, PartialEq, Eq, Hash, PartialOrd, Ord)]
pub enum Kind {
	Pre,
	Post,
	FStart,
	Item,
	FEnd,
}

impl Kind {
	pub fn code(self) -> u8 {
		match self {
			Kind::Pre => 0x37,
			Kind::Post => 0x38,
			Kind::FStart => 0x3A,
			Kind::Item => 0x3B,
			Kind::FEnd => 0x3C,
		}
	}
	pub fn table(self) -> &'static [Field] {
		match self {
			Kind::Pre => PRE,
			Kind::Post => POST,
			Kind::FStart => FSTART,
			Kind::Item => ITEM,
			Kind::FEnd => FEND,
		}
	}
	/// length of the fixed header (frame id [+ port + follower]) in the payload
	pub fn header_len(self) -> usize {
		match self {
			Kind::Pre | Kind::Post => 6,
			_ => 4,
		}
	}
	/// first version in which the event exists at all
	pub fn exists_since(self) -> V {
		match self {
			Kind::Pre | Kind::Post => (0, 1),
			Kind::FStart => (2, 2),
			Kind::Item | Kind::FEnd => (3, 0),
		}
	}
	pub fn exists(self, v: V) -> bool {
		gte(v, self.exists_since())
	}
	pub fn fields(self, v: V) -> Vec<Field> {
		self.table().iter().copied().filter(|f| gte(v, f.since)).collect()
	}
	/// payload size (without command byte) the SPEC prescribes for version `v`
	pub fn payload_size(self, v: V) -> usize {
		self.header_len() + self.fields(v).iter().map(|f| f.ty.size()).sum::<usize>()
	}
	pub const ALL: [Kind; 5] = [Kind::Pre, Kind::Post, Kind::FStart, Kind::Item, Kind::FEnd];
}

/// Internal consistency of the hand-typed tables: fields are contiguous from
/// the end of the header, in SPEC offset order, and `since` is monotone.
/// Returns a description of the first inconsistency (a harness error).
pub fn self_check() -> Result<(), String> {
	for k in Kind::ALL {
		let mut off = 1 + k.header_len();
		let mut since = (0u8, 0u8);
		for fl in k.table() {
			if fl.off != off {
				return Err(format!("{:?}.{}: typed offset {:#x} != cumulative {:#x}", k, fl.path, fl.off, off));
			}
			if !gte(fl.since, since) {
				return Err(format!("{:?}.{}: since not monotone", k, fl.path));
			}
			since = fl.since;
			off += fl.ty.size();
		}
	}
	// SPEC totals for the newest supported layout (3.16), payload bytes
	let want = [(Kind::Pre, 0x40), (Kind::Post, 0x54), (Kind::FStart, 0x0C), (Kind::Item, 0x2C), (Kind::FEnd, 0x08)];
	for (k, n) in want {
		if k.payload_size((3, 16)) != n {
			return Err(format!("{:?} size at 3.16 = {} want {}", k, k.payload_size((3, 16)), n));
		}
	}
	Ok(())
}

/// Game Start payload length classes.
pub fn start_size(v: V) -> usize {
	if gte(v, (3, 14)) {
		760
	} else if gte(v, (3, 12)) {
		701
	} else if gte(v, (3, 11)) {
		700
	} else if gte(v, (3, 9)) {
		584
	} else if gte(v, (3, 7)) {
		420
	} else if gte(v, (2, 0)) {
		418
	} else if gte(v, (1, 5)) {
		417
	} else if gte(v, (1, 3)) {
		416
	} else if gte(v, (1, 0)) {
		352
	} else {
		320
	}
}

pub const START_CLASSES: [(V, usize); 10] = [
	((0, 1), 320),
	((1, 0), 352),
	((1, 3), 416),
	((1, 5), 417),
	((2, 0), 418),
	((3, 7), 420),
	((3, 9), 584),
	((3, 11), 700),
	((3, 12), 701),
	((3, 14), 760),
];

pub fn end_size(v: V) -> usize {
	if gte(v, (3, 13)) {
		6
	} else if gte(v, (2, 0)) {
		2
	} else {
		1
	}
}

/// Versions at which some layout changes: every distinct layout 0.1..=3.16 is
/// represented by the first version that has it.
pub fn layout_versions() -> Vec<V> {
	let mut vs: Vec<V> = vec![(0, 1), (2, 2), (3, 0), (3, 3)];
	for k in Kind::ALL {
		for fl in k.table() {
			vs.push(fl.since);
		}
	}
	for (v, _) in START_CLASSES {
		vs.push(v);
	}
	vs.push((2, 0));
	vs.push((3, 13));
	vs.push((3, 16));
	vs.sort();
	vs.dedup();
	vs
}

/// All (major, minor) pairs from 0.1 to 3.16 inclusive, in the sense "any
/// version <= 3.16": minors 0..=255 for majors 0..=2, 0..=16 for major 3.
pub fn all_versions() -> Vec<V> {
	let mut out = vec![];
	for major in 0..=3u8 {
		let max_minor = if major == 3 { 16 } else { 255 };
		for minor in 0..=max_minor {
			if (major, minor) != (0, 0) {
				out.push((major, minor));
			}
		}
	}
	out
}

/// Game Start field offsets, payload-relative (= SPEC offset - 1).
pub mod start {
	pub const VERSION: usize = 0x0;
	pub const BITFIELD: usize = 0x4; // 4 bytes
	pub const BOMBS: usize = 0xA;
	pub const TEAMS: usize = 0xC;
	pub const ITEM_FREQ: usize = 0xF;
	pub const SD_SCORE: usize = 0x10;
	pub const STAGE: usize = 0x12; // u16
	pub const TIMER: usize = 0x14; // u32
	pub const ITEM_BITFIELD: usize = 0x27; // 5 bytes
	pub const DAMAGE_RATIO: usize = 0x34; // f32
	pub const PLAYERS: usize = 0x64; // 6 x 0x24
	pub const PLAYER_STRIDE: usize = 0x24;
	pub const P_CHAR: usize = 0;
	pub const P_TYPE: usize = 1;
	pub const P_STOCKS: usize = 2;
	pub const P_COSTUME: usize = 3;
	pub const P_SHADE: usize = 7;
	pub const P_HANDICAP: usize = 8;
	pub const P_TEAM: usize = 9;
	pub const P_BITFIELD: usize = 12;
	pub const P_CPU: usize = 15;
	pub const P_OFFENSE: usize = 24;
	pub const P_DEFENSE: usize = 28;
	pub const P_SCALE: usize = 32;
	pub const SEED: usize = 0x13C; // u32
	pub const UCF: usize = 0x140; // 4 x (u32 dashback, u32 shield drop), since 1.0
	pub const NAME_TAG: usize = 0x160; // 4 x 16, since 1.3
	pub const PAL: usize = 0x1A0; // since 1.5
	pub const FROZEN_PS: usize = 0x1A1; // since 2.0
	pub const SCENE_MINOR: usize = 0x1A2; // since 3.7
	pub const SCENE_MAJOR: usize = 0x1A3;
	pub const DISPLAY_NAME: usize = 0x1A4; // 4 x 31, since 3.9
	pub const CONNECT_CODE: usize = 0x220; // 4 x 10, since 3.9
	pub const SLIPPI_UID: usize = 0x248; // 4 x 29, since 3.11
	pub const LANGUAGE: usize = 0x2BC; // since 3.12
	pub const MATCH_ID: usize = 0x2BD; // 51 bytes, since 3.14
	pub const GAME_NUMBER: usize = 0x2F0; // u32
	pub const TIEBREAKER: usize = 0x2F4; // u32
}
