//! Harness self-check, run at the start of every check: the hand-typed spec
//! tables must be internally consistent and must predict the payload sizes
//! that the repository's real recorder-produced fixtures declare for their
//! version. A failure here is a *harness error* (exit 2), never a violation.

use crate::spec::{self, Kind};
use crate::{common, model};

pub fn run(verbose: bool) -> Result<(), String> {
	spec::self_check()?;
	let mut pinned = std::collections::BTreeSet::new();
	for (name, bytes) in common::fixtures() {
		let m = match model::parse(&bytes) {
			Ok(m) => m,
			Err(e) => {
				// not a well-formed file (e.g. tests/data/corrupt.slp): not usable as a pin
				if verbose {
					println!("fixture {:28} skipped: reference model rejects it ({})", name, e);
				}
				continue;
			}
		};
		let v = m.v();
		if spec::gte(v, (3, 17)) {
			continue;
		}
		for (code, size) in &m.table {
			let want = match code {
				0x36 => Some(spec::start_size(v)),
				0x37 => Some(Kind::Pre.payload_size(v)),
				0x38 => Some(Kind::Post.payload_size(v)),
				0x39 => Some(spec::end_size(v)),
				0x3A => Some(Kind::FStart.payload_size(v)),
				0x3B => Some(Kind::Item.payload_size(v)),
				0x3C => Some(Kind::FEnd.payload_size(v)),
				_ => None,
			};
			if let Some(w) = want {
				if w != *size as usize {
					return Err(format!("fixture {} (v{}.{}) declares size {} for event {:#x}, spec.rs predicts {}", name, v.0, v.1, size, code, w));
				}
			}
		}
		pinned.insert(v);
		if verbose {
			println!("fixture {:28} v{}.{}.{} table {:?} frames {} ends {} gecko {} meta {}", name, m.version.0, m.version.1, m.version.2, m.table, m.frames.len(), m.ends.len(), m.gecko.is_some(), m.metadata.is_some());
		}
	}
	if pinned.len() < 5 {
		return Err(format!("only {} fixture versions available to pin the spec tables", pinned.len()));
	}
	if verbose {
		println!("spec tables pinned by fixtures at versions {:?}; layouts {:?}", pinned, spec::layout_versions());
	}
	Ok(())
}
