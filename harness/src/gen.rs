//! Structure-aware generator of well-formed .slp files, with ground truth.

use crate::model::{self, CharEv, Gecko, MVal, Meta, Model, Occ};
use crate::rng::Rng;
use crate::spec::{self, gte, Kind, Ty, V};

#[derive(Clone, Debug)]
pub struct FrameSpec {
	pub id: i32,
	/// presence per character, in `Spec::chars()` order
	pub present: Vec<bool>,
	pub items: usize,
}

#[derive(Clone, Debug, Default)]
pub struct Extra {
	pub start: usize,
	pub pre: usize,
	pub post: usize,
	pub end: usize,
	pub fstart: usize,
	pub item: usize,
	pub fend: usize,
}

#[derive(Clone, Debug)]
pub struct Spec {
	pub ver: (u8, u8, u8),
	pub build: u8,
	/// occupied ports in ascending order, with Ice Climbers flag
	pub ports: Vec<(u8, bool)>,
	/// player type byte of each occupied port (0 human, 1 cpu, 2 demo)
	pub ptypes: Vec<u8>,
	pub teams: bool,
	pub frames: Vec<FrameSpec>,
	pub gecko_blocks: usize,
	/// actual_size = blocks*512 - gecko_tail
	pub gecko_tail: usize,
	pub ends: usize,
	pub metadata: Option<Meta>,
	/// extra trailing bytes per event (only for versions > 3.16)
	pub extra: Extra,
	/// random start block content (true) or zeros except mandatory fields (false)
	pub rich_start: bool,
	/// use exactly this Game Start / Game End payload (C05)
	pub start_override: Option<Vec<u8>>,
	pub end_override: Option<Vec<u8>>,
}

impl Spec {
	pub fn v(&self) -> V {
		(self.ver.0, self.ver.1)
	}
	pub fn chars(&self) -> Vec<(u8, bool)> {
		let mut c = vec![];
		for (p, ics) in &self.ports {
			c.push((*p, false));
			if *ics {
				c.push((*p, true));
			}
		}
		c
	}
	pub fn describe(&self) -> String {
		let ids: Vec<i32> = self.frames.iter().map(|f| f.id).collect();
		let head: Vec<String> = ids.iter().take(12).map(|x| x.to_string()).collect();
		format!(
			"v{}.{}.{} ports={:?} frames={} ids=[{}{}] absent_rows={} items={} gecko={}x512-{} ends={} meta={}",
			self.ver.0,
			self.ver.1,
			self.ver.2,
			self.ports,
			self.frames.len(),
			head.join(","),
			if ids.len() > 12 { ",.." } else { "" },
			self.frames.iter().filter(|f| f.present.iter().any(|p| !p)).count(),
			self.frames.iter().map(|f| f.items).sum::<usize>(),
			self.gecko_blocks,
			self.gecko_tail,
			self.ends,
			self.metadata.is_some()
		)
	}
}

pub struct Built {
	pub bytes: Vec<u8>,
	pub truth: Model,
}

const SPECIAL32: [u32; 10] = [0, 0x8000_0000, 0xFFFF_FFFF, 0x7FC0_0001, 0xFFA5_A5A5, 0x7F80_0001, 0x7F80_0000, 0xFF80_0000, 0x0000_0001, 0x7FFF_FFFF];

/// Random bits for every payload field; now and then a field gets a "special"
/// pattern (zero, all ones, sign bit, quiet/signalling NaNs with payload, inf).
fn fill_payload(kind: Kind, v: V, payload: &mut [u8], rng: &mut Rng) {
	let h = kind.header_len();
	rng.fill(&mut payload[h..]);
	for f in kind.fields(v) {
		if rng.chance(1, 8) {
			let s = *rng.pick(&SPECIAL32);
			let off = f.off - 1;
			match f.ty {
				Ty::U8 | Ty::I8 => payload[off] = (s >> 24) as u8 | (s as u8),
				Ty::U16 => payload[off..off + 2].copy_from_slice(&(((s >> 16) as u16) | (s as u16)).to_be_bytes()),
				_ => payload[off..off + 4].copy_from_slice(&s.to_be_bytes()),
			}
		}
	}
}

const NAME_ATOMS: &[&[u8]] = &[
	b"A", b"z", b"0", b" ", b"#", b"!", b"~", &[0x82, 0xA0], &[0x83, 0x41], &[0x81, 0x40], &[0xB1], &[0x81, 0x66], &[0x81, 0x68], &[0x82, 0x60], &[0x88, 0x9F], &[0xDF],
];

/// A valid Shift-JIS string of at most `width-1` bytes, NUL, then garbage.
pub fn name_field(width: usize, rng: &mut Rng) -> Vec<u8> {
	let mut out = vec![];
	// now and then: a run of single-byte half-width katakana (1 byte -> 3 UTF-8 bytes), up to the
	// whole field without a terminating NUL
	if rng.chance(1, 12) {
		let n = if rng.chance(1, 2) { width } else { rng.range(1, width) };
		out.extend((0..n).map(|_| 0xA1 + rng.below(0x3F) as u8));
		if out.len() < width {
			out.push(0);
		}
		while out.len() < width {
			out.push(rng.byte());
		}
		return out;
	}
	// a field completely filled with text, no NUL
	let full = rng.chance(1, 10);
	let target = if full { width } else { rng.below(width) };
	loop {
		let a = *rng.pick(NAME_ATOMS);
		if out.len() + a.len() > target {
			break;
		}
		out.extend_from_slice(a);
	}
	if full {
		while out.len() < width {
			out.push(b'A' + rng.below(26) as u8);
		}
		return out;
	}
	out.push(0);
	while out.len() < width {
		out.push(rng.byte());
	}
	out
}

pub fn ascii_field(width: usize, rng: &mut Rng) -> Vec<u8> {
	let n = rng.below(width);
	let mut out: Vec<u8> = if rng.chance(1, 4) {
		// valid multi-byte UTF-8 (identifiers are UTF-8 strings, not ASCII)
		let mut s = String::new();
		loop {
			let c = *rng.pick(&['a', 'Z', '-', '.', 'é', 'ü', 'ß', 'ス', 'マ', '世', '😀', '7']);
			if s.len() + c.len_utf8() > n {
				break;
			}
			s.push(c);
		}
		s.into_bytes()
	} else {
		(0..n).map(|_| b'!' + (rng.below(90) as u8)).collect()
	};
	out.push(0);
	while out.len() < width {
		out.push(if rng.chance(1, 2) { 0 } else { b'a' + rng.below(26) as u8 });
	}
	out
}

pub fn start_block(s: &Spec, rng: &mut Rng) -> Vec<u8> {
	use spec::start as so;
	let v = s.v();
	// versions above the maximum keep the newest known layout (plus extra bytes)
	let len = spec::start_size(v) + s.extra.start;
	let mut st = vec![0u8; len];
	if s.rich_start {
		rng.fill(&mut st);
	}
	st[so::VERSION] = s.ver.0;
	st[so::VERSION + 1] = s.ver.1;
	st[so::VERSION + 2] = s.ver.2;
	st[so::VERSION + 3] = s.build;
	// stage ids are small numbers in practice: half of the rich blocks carry one
	if s.rich_start && rng.chance(1, 2) {
		let stage = *rng.pick(&[2u16, 3, 8, 28, 31, 32, 0, 1, 24, 40]);
		st[so::STAGE..so::STAGE + 2].copy_from_slice(&stage.to_be_bytes());
	}
	st[so::TEAMS] = if s.teams { 1 + rng.below(255) as u8 } else { 0 };
	for slot in 0..6 {
		let o = so::PLAYERS + so::PLAYER_STRIDE * slot;
		// empty unless occupied below; slots 5/6 are never read by peppi
		st[o + so::P_TYPE] = if slot < 4 { 3 } else { st[o + so::P_TYPE] };
		if slot < 4 && st[o + so::P_CHAR] == 14 {
			st[o + so::P_CHAR] = 15;
		}
	}
	for (i, (port, ics)) in s.ports.iter().enumerate() {
		let o = so::PLAYERS + so::PLAYER_STRIDE * (*port as usize);
		st[o + so::P_TYPE] = s.ptypes[i];
		if *ics {
			st[o + so::P_CHAR] = 14;
		} else if st[o + so::P_CHAR] == 14 {
			st[o + so::P_CHAR] = 2;
		}
	}
	if gte(v, (1, 0)) {
		for p in 0..4 {
			let o = so::UCF + 8 * p;
			st[o..o + 4].copy_from_slice(&(rng.below(3) as u32).to_be_bytes());
			st[o + 4..o + 8].copy_from_slice(&(rng.below(3) as u32).to_be_bytes());
		}
	}
	if gte(v, (1, 3)) {
		for p in 0..4 {
			let o = so::NAME_TAG + 16 * p;
			let f = if s.rich_start { name_field(16, rng) } else { vec![0; 16] };
			st[o..o + 16].copy_from_slice(&f);
		}
	}
	if gte(v, (3, 9)) {
		for p in 0..4 {
			let o = so::DISPLAY_NAME + 31 * p;
			let f = if s.rich_start { name_field(31, rng) } else { vec![0; 31] };
			st[o..o + 31].copy_from_slice(&f);
			let o = so::CONNECT_CODE + 10 * p;
			let f = if s.rich_start { name_field(10, rng) } else { vec![0; 10] };
			st[o..o + 10].copy_from_slice(&f);
		}
	}
	if gte(v, (3, 11)) {
		for p in 0..4 {
			let o = so::SLIPPI_UID + 29 * p;
			let f = if s.rich_start { ascii_field(29, rng) } else { vec![0; 29] };
			st[o..o + 29].copy_from_slice(&f);
		}
	}
	if gte(v, (3, 12)) {
		st[so::LANGUAGE] = rng.below(2) as u8;
	}
	if gte(v, (3, 14)) {
		let f = if s.rich_start { ascii_field(51, rng) } else { vec![0; 51] };
		st[so::MATCH_ID..so::MATCH_ID + 51].copy_from_slice(&f);
	}
	st
}

pub fn end_block(v: V, extra: usize, rng: &mut Rng) -> Vec<u8> {
	let mut e = vec![0u8; spec::end_size(v) + extra];
	rng.fill(&mut e);
	e[0] = *rng.pick(&[0u8, 1, 2, 3, 7]);
	if e.len() > 1 && spec::end_size(v) >= 2 {
		e[1] = *rng.pick(&[255u8, 0, 1, 2, 3]);
	}
	if spec::end_size(v) >= 6 {
		for i in 2..6 {
			e[i] = *rng.pick(&[255u8, 0, 1, 2, 3]);
		}
	}
	e
}

pub fn table_for(s: &Spec) -> Vec<(u8, usize)> {
	let v = s.v();
	let x = &s.extra;
	let mut sizes: Vec<(u8, usize)> = vec![
		(0x36, spec::start_size(v) + x.start),
		(0x37, Kind::Pre.payload_size(v) + x.pre),
		(0x38, Kind::Post.payload_size(v) + x.post),
		(0x39, spec::end_size(v) + x.end),
	];
	if gte(v, (2, 2)) {
		sizes.push((0x3A, Kind::FStart.payload_size(v) + x.fstart));
	}
	if gte(v, (3, 0)) {
		sizes.push((0x3B, Kind::Item.payload_size(v) + x.item));
		sizes.push((0x3C, Kind::FEnd.payload_size(v) + x.fend));
	}
	if gte(v, (3, 3)) && s.gecko_blocks > 0 {
		let actual = s.gecko_blocks * 512 - s.gecko_tail;
		sizes.push((0x3D, (actual as u16) as usize));
		sizes.push((0x10, 516));
	}
	sizes
}

fn push_event(raw: &mut Vec<u8>, code: u8, payload: &[u8]) {
	raw.push(code);
	raw.extend_from_slice(payload);
}

/// Build the file and its ground truth.
pub fn build(s: &Spec, rng: &mut Rng) -> Built {
	let v = s.v();
	let x = s.extra.clone();
	let sizes = table_for(s);
	let mut raw = vec![0x35u8, (sizes.len() * 3 + 1) as u8];
	for (c, sz) in &sizes {
		raw.push(*c);
		raw.extend_from_slice(&(*sz as u16).to_be_bytes());
	}
	let mut truth = Model { version: s.ver, ..Default::default() };
	truth.table = sizes.iter().map(|(c, s)| (*c, *s as u16)).collect();
	let mut events: Vec<(u8, usize, usize)> = vec![];
	let base = 15; // file offset of raw[0]
	let st = match &s.start_override {
		Some(b) => b.clone(),
		None => start_block(s, rng),
	};
	events.push((0x36, base + raw.len(), st.len()));
	push_event(&mut raw, 0x36, &st);
	truth.start = st;

	if gte(v, (3, 3)) && s.gecko_blocks > 0 {
		let total = s.gecko_blocks * 512 - s.gecko_tail;
		let mut all = vec![];
		for b in 0..s.gecko_blocks {
			let block = rng.bytes(512);
			let sz = std::cmp::min(512, total - b * 512);
			let mut p = block.clone();
			p.extend_from_slice(&(sz as u16).to_be_bytes());
			p.push(0x3D);
			p.push((b + 1 == s.gecko_blocks) as u8);
			events.push((0x10, base + raw.len(), 516));
			push_event(&mut raw, 0x10, &p);
			all.extend_from_slice(&block);
		}
		truth.gecko = Some(Gecko { bytes: all, actual_size: total as u32 });
	}

	let chars = s.chars();
	let mk = |kind: Kind, extra: usize, id: i32, pf: Option<(u8, bool)>, rng: &mut Rng| -> Vec<u8> {
		let mut p = vec![0u8; kind.payload_size(v) + extra];
		fill_payload(kind, v, &mut p, rng);
		p[0..4].copy_from_slice(&id.to_be_bytes());
		if let Some((port, fol)) = pf {
			p[4] = port;
			p[5] = fol as u8;
		}
		p
	};
	for fs in &s.frames {
		let mut o = Occ { id: fs.id, ..Default::default() };
		if gte(v, (2, 2)) {
			let p = mk(Kind::FStart, x.fstart, fs.id, None, rng);
			events.push((0x3A, base + raw.len(), p.len()));
			push_event(&mut raw, 0x3A, &p);
			o.start = Some(p);
		}
		for (i, c) in chars.iter().enumerate() {
			if fs.present[i] {
				let p = mk(Kind::Pre, x.pre, fs.id, Some(*c), rng);
				events.push((0x37, base + raw.len(), p.len()));
				push_event(&mut raw, 0x37, &p);
				o.chars.insert(*c, CharEv { pre: Some(p), post: None });
			}
		}
		if gte(v, (3, 0)) {
			for _ in 0..fs.items {
				let p = mk(Kind::Item, x.item, fs.id, None, rng);
				events.push((0x3B, base + raw.len(), p.len()));
				push_event(&mut raw, 0x3B, &p);
				o.items.push(p);
			}
		}
		for (i, c) in chars.iter().enumerate() {
			if fs.present[i] {
				let p = mk(Kind::Post, x.post, fs.id, Some(*c), rng);
				events.push((0x38, base + raw.len(), p.len()));
				push_event(&mut raw, 0x38, &p);
				o.chars.get_mut(c).unwrap().post = Some(p);
			}
		}
		if gte(v, (3, 0)) {
			let p = mk(Kind::FEnd, x.fend, fs.id, None, rng);
			events.push((0x3C, base + raw.len(), p.len()));
			push_event(&mut raw, 0x3C, &p);
			o.end = Some(p);
		}
		truth.frames.push(o);
	}
	if s.ends > 0 {
		let e = match &s.end_override {
			Some(b) => b.clone(),
			None => end_block(v, x.end, rng),
		};
		for _ in 0..s.ends {
			events.push((0x39, base + raw.len(), e.len()));
			push_event(&mut raw, 0x39, &e);
			truth.ends.push(e.clone());
		}
	}
	let mut out = model::SIG.to_vec();
	out.extend_from_slice(&(raw.len() as u32).to_be_bytes());
	out.extend_from_slice(&raw);
	truth.declared_raw_len = raw.len() as u32;
	truth.actual_raw_len = raw.len();
	if let Some(m) = &s.metadata {
		out.extend_from_slice(b"U\x08metadata{");
		model::write_meta(&mut out, m);
		out.push(b'}');
		truth.metadata = Some(m.clone());
	}
	out.push(b'}');
	truth.consumed = out.len();
	truth.events = events;
	Built { bytes: out, truth }
}

// ---------------------------------------------------------------- spec space

pub fn gen_meta(rng: &mut Rng, depth: usize, width: usize) -> Meta {
	let mut m = vec![];
	let n = rng.below(width + 1);
	for i in 0..n {
		let klen = *rng.pick(&[0usize, 1, 3, 8, 20, 255]);
		let mut k = gen_utf8(rng, klen);
		// distinct keys per map
		if m.iter().any(|(kk, _)| *kk == k) {
			k = format!("{}#{}", i, rng.next());
		}
		let v = match rng.below(if depth == 0 { 2 } else { 3 }) {
			0 => {
				let n = *rng.pick(&[0usize, 1, 5, 30, 254, 255]);
				MVal::Str(gen_utf8(rng, n))
			}
			1 => {
				let base = *rng.pick(&[0i32, 1, -1, i32::MIN, i32::MAX, 255, 256, -123, 0x7b7d5553]);
				MVal::Int(if rng.chance(1, 2) { base } else { rng.next() as i32 })
			}
			_ => MVal::Map(gen_meta(rng, depth - 1, width)),
		};
		m.push((k, v));
	}
	m
}

/// Random valid UTF-8 of at most `max_bytes` bytes (mix of 1..4-byte scalars,
/// including characters that need JSON escaping).
pub fn gen_utf8(rng: &mut Rng, max_bytes: usize) -> String {
	const POOL: &[char] = &['a', 'Z', '0', ' ', '"', '\\', '/', '\n', '\t', '\u{7f}', '\u{1}', '}', '{', 'U', 'é', 'ß', 'あ', '漢', '\u{ffff}', '😀', '\u{10ffff}', '\u{2028}', '\u{feff}', '\u{fffe}', '\u{fffd}', '\u{d7ff}', '\u{e000}', '\u{80}', '\u{7ff}', '\u{800}', '\u{10000}', '\u{200b}', '\0', '２', '年'];
	let mut s = String::new();
	// characters that decoders treat specially only at the very start of a text (byte-order marks)
	if max_bytes >= 3 && rng.chance(1, 16) {
		s.push(*rng.pick(&['\u{feff}', '\u{fffe}', '\u{fffd}']));
	}
	loop {
		let c = if rng.chance(1, 4) { *rng.pick(POOL) } else { (b' ' + rng.below(95) as u8) as char };
		if s.len() + c.len_utf8() > max_bytes {
			// try to top up with ascii to hit the exact length now and then
			while s.len() < max_bytes {
				s.push('x');
			}
			return s;
		}
		s.push(c);
		if rng.chance(1, 24) && max_bytes < 255 {
			return s;
		}
	}
}

/// Frame history generator.
pub fn gen_frames(rng: &mut Rng, v: V, nchars: usize, n: usize, rollbacks: bool, absence: usize, max_items: usize) -> Vec<FrameSpec> {
	let mut out: Vec<FrameSpec> = vec![];
	let mut id: i32 = -123;
	let pre22 = !gte(v, (2, 2));
	while out.len() < n {
		let mut present: Vec<bool> = (0..nchars).map(|_| !(absence > 0 && rng.chance(absence, 10))).collect();
		if pre22 && !present.iter().any(|p| *p) {
			if nchars == 0 {
				break;
			}
			present[rng.below(nchars)] = true;
		}
		let items = if max_items > 0 && gte(v, (3, 0)) { if rng.chance(1, 3) { rng.below(max_items + 1) } else { 0 } } else { 0 };
		out.push(FrameSpec { id, present, items });
		if rollbacks && gte(v, (2, 2)) && rng.chance(1, 6) {
			let depth = rng.range(1, 7) as i32;
			id = std::cmp::max(-123, id + 1 - depth);
		} else {
			id += 1;
		}
	}
	out
}

pub fn all_port_configs() -> Vec<Vec<(u8, bool)>> {
	// every subset of 4 ports, each optionally ICs: 3^4 = 81 configurations
	let mut out = vec![];
	for code in 0..81usize {
		let mut c = code;
		let mut ports = vec![];
		for p in 0..4u8 {
			match c % 3 {
				1 => ports.push((p, false)),
				2 => ports.push((p, true)),
				_ => {}
			}
			c /= 3;
		}
		out.push(ports);
	}
	out
}

/// A random well-formed Spec for version `ver`.
pub fn random_spec(rng: &mut Rng, ver: (u8, u8, u8), size: usize) -> Spec {
	let v = (ver.0, ver.1);
	let cfgs = all_port_configs();
	let ports = cfgs[rng.below(cfgs.len())].clone();
	let nchars: usize = ports.iter().map(|(_, i)| 1 + *i as usize).sum();
	let n = match rng.below(10) {
		0 => 0,
		1 => 1,
		2 => 2,
		_ => rng.range(1, size.max(1)),
	};
	let absence = *rng.pick(&[0usize, 0, 1, 3, 5, 9]);
	let frames = if nchars == 0 && !gte(v, (2, 2)) { vec![] } else { { let rb = rng.chance(1, 2); // item counts: none, few, the in-game cap (15), just above it, many, and - rarely - more than a byte can count
		let mi = if rng.chance(1, 60) { 300 } else { *rng.pick(&[0usize, 2, 15, 16, 40]) }; gen_frames(rng, v, nchars, n, rb, absence, mi) } };
	let gecko_blocks = if gte(v, (3, 3)) { *rng.pick(&[0usize, 0, 1, 1, 2, 3, 7]) } else { 0 };
	// tail 0 = the list fills its last 512-byte block exactly
	let gecko_tail = if gecko_blocks > 0 && !rng.chance(1, 5) { rng.below(512) } else { 0 };
	let ptypes = ports.iter().map(|_| rng.below(3) as u8).collect();
	Spec {
		ver,
		build: rng.byte(),
		ports,
		ptypes,
		teams: rng.chance(1, 3),
		frames,
		gecko_blocks,
		gecko_tail,
		ends: *rng.pick(&[0usize, 1, 1, 1, 2]),
		metadata: if rng.chance(1, 4) { None } else { Some(gen_meta(rng, 3, 4)) },
		extra: Extra::default(),
		rich_start: rng.chance(3, 4),
		start_override: None,
		end_override: None,
	}
}

/// The deterministic "base shape" used for sweeps over all versions.
pub fn base_spec(ver: (u8, u8, u8), ports: Vec<(u8, bool)>, nframes: usize) -> Spec {
	let nchars: usize = ports.iter().map(|(_, i)| 1 + *i as usize).sum();
	let frames = (0..nframes).map(|i| FrameSpec { id: -123 + i as i32, present: vec![true; nchars], items: i % 3 }).collect();
	Spec {
		ver,
		build: 0,
		ptypes: ports.iter().map(|_| 0).collect(),
		ports,
		teams: false,
		frames,
		gecko_blocks: 0,
		gecko_tail: 0,
		ends: 1,
		metadata: None,
		extra: Extra::default(),
		rich_start: false,
		start_override: None,
		end_override: None,
	}
}
