//! Minimal independent tar (ustar/GNU) reader and writer: 512-byte headers,
//! octal sizes, data padded to 512, two zero blocks at the end.

#[derive(Clone, Debug, PartialEq, Eq)]
pub struct Entry {
	pub name: String,
	pub data: Vec<u8>,
	/// offset of the header block in the archive
	pub header_at: usize,
	pub header: Vec<u8>,
}

fn octal(b: &[u8]) -> Result<u64, String> {
	let s: String = b.iter().take_while(|c| **c != 0 && **c != b' ').map(|c| *c as char).collect();
	if s.is_empty() {
		return Ok(0);
	}
	u64::from_str_radix(s.trim(), 8).map_err(|e| format!("octal {:?}: {}", s, e))
}

pub fn checksum(h: &[u8]) -> u32 {
	let mut sum = 0u32;
	for (i, b) in h.iter().enumerate().take(512) {
		sum += if (148..156).contains(&i) { 32 } else { *b as u32 };
	}
	sum
}

/// Parse an archive. Returns entries and the number of trailing bytes after
/// the last entry (the end-of-archive zero blocks and padding).
pub fn read(a: &[u8]) -> Result<(Vec<Entry>, usize), String> {
	let mut out = vec![];
	let mut p = 0;
	loop {
		if p + 512 > a.len() {
			return Err(format!("archive ends inside/before a header at {}", p));
		}
		let h = &a[p..p + 512];
		if h.iter().all(|b| *b == 0) {
			// end of archive: everything after must be zeros
			if !a[p..].iter().all(|b| *b == 0) {
				return Err("non-zero bytes after end-of-archive marker".into());
			}
			return Ok((out, a.len() - p));
		}
		let name: String = h[..100].iter().take_while(|c| **c != 0).map(|c| *c as char).collect();
		let size = octal(&h[124..136])? as usize;
		let stored = octal(&h[148..156])? as u32;
		if stored != checksum(h) {
			return Err(format!("bad header checksum for {:?} at {}", name, p));
		}
		let start = p + 512;
		if start + size > a.len() {
			return Err(format!("entry {:?} data beyond archive end", name));
		}
		out.push(Entry { name, data: a[start..start + size].to_vec(), header_at: p, header: h.to_vec() });
		p = start + (size + 511) / 512 * 512;
	}
}

pub fn header_for(name: &str, size: usize) -> Vec<u8> {
	header_for_bytes(name.as_bytes(), size, b'0')
}

/// Header with an arbitrary (possibly non-UTF-8) name and type flag ('0' file, '5' directory).
pub fn header_for_bytes(name: &[u8], size: usize, typeflag: u8) -> Vec<u8> {
	let mut h = vec![0u8; 512];
	h[..name.len()].copy_from_slice(name);
	h[100..108].copy_from_slice(b"0000644\0");
	h[108..116].copy_from_slice(b"0000000\0");
	h[116..124].copy_from_slice(b"0000000\0");
	h[124..136].copy_from_slice(format!("{:011o}\0", size).as_bytes());
	h[136..148].copy_from_slice(b"00000000000\0");
	h[156] = typeflag;
	h[257..263].copy_from_slice(b"ustar\0");
	h[263..265].copy_from_slice(b"00");
	let c = checksum(&h);
	h[148..156].copy_from_slice(format!("{:06o}\0 ", c).as_bytes());
	h
}

/// Serialise entries; entries that carry an original header reuse it when the
/// size is unchanged, so untouched entries stay byte-identical.
pub fn write(entries: &[Entry]) -> Vec<u8> {
	let mut out = vec![];
	for e in entries {
		let reuse = e.header.len() == 512 && octal(&e.header[124..136]).ok() == Some(e.data.len() as u64);
		if reuse {
			out.extend_from_slice(&e.header);
		} else {
			out.extend_from_slice(&header_for(&e.name, e.data.len()));
		}
		out.extend_from_slice(&e.data);
		while out.len() % 512 != 0 {
			out.push(0);
		}
	}
	out.extend_from_slice(&[0u8; 1024]);
	out
}
