//! Corruption operators for hostile-input workloads (C06): byte-level,
//! field-level, event-level, table-level, splitter-level and metadata-level.

use crate::model::{Model, SIG};
use crate::rng::Rng;

#[derive(Clone, Debug)]
pub struct Parts {
	pub declared: u32,
	pub table: Vec<(u8, u16)>,
	/// events after the payload table (Game Start first), code + payload
	pub events: Vec<(u8, Vec<u8>)>,
	/// bytes after the raw element (metadata + closing brace)
	pub tail: Vec<u8>,
}

pub fn split(bytes: &[u8], m: &Model) -> Parts {
	let events = m.events.iter().map(|(c, at, len)| (*c, bytes[at + 1..at + 1 + len].to_vec())).collect();
	let raw_end = 15 + m.declared_raw_len as usize;
	Parts { declared: m.declared_raw_len, table: m.table.clone(), events, tail: bytes[raw_end.min(bytes.len())..].to_vec() }
}

pub fn assemble(p: &Parts, fix_len: bool) -> Vec<u8> {
	let mut raw = vec![0x35u8, (p.table.len() * 3 + 1) as u8];
	for (c, s) in &p.table {
		raw.push(*c);
		raw.extend_from_slice(&s.to_be_bytes());
	}
	for (c, pl) in &p.events {
		raw.push(*c);
		raw.extend_from_slice(pl);
	}
	let mut out = SIG.to_vec();
	let len = if fix_len { raw.len() as u32 } else { p.declared };
	out.extend_from_slice(&len.to_be_bytes());
	out.extend_from_slice(&raw);
	out.extend_from_slice(&p.tail);
	out
}

pub const OPS: &[&str] = &[
	"byte-set-header",
	"byte-set-any",
	"bit-flip",
	"frame-id",
	"port-byte",
	"follower-flag",
	"event-delete",
	"event-duplicate",
	"event-swap",
	"event-move",
	"event-illegal-declared",
	"event-illegal-undeclared",
	"raw-len",
	"table-size",
	"table-drop",
	"table-dup",
	"table-garbage",
	"splitter-field",
	"splitter-insert",
	"start-block",
	"end-block",
	"metadata-deep",
	"metadata-garbage",
	"metadata-types",
	"random-bytes",
	"truncate",
	"tail-garbage",
	"double-mutation",
];

const INTERESTING: [u8; 12] = [0, 1, 2, 3, 4, 5, 6, 0x7f, 0x80, 0xfe, 0xff, 0x10];
const FRAME_CODES: [u8; 6] = [0x37, 0x38, 0x3A, 0x3B, 0x3C, 0x10];

fn frame_event_indices(p: &Parts) -> Vec<usize> {
	p.events.iter().enumerate().filter(|(_, (c, _))| FRAME_CODES.contains(c) || *c == 0x39).map(|(i, _)| i).collect()
}

fn payload_for(code: u8, size: usize, rng: &mut Rng, id: i32) -> Vec<u8> {
	let mut p = rng.bytes(size);
	if size >= 4 {
		p[..4].copy_from_slice(&id.to_be_bytes());
	}
	if (code == 0x37 || code == 0x38) && size >= 6 {
		p[4] = rng.below(4) as u8;
		p[5] = rng.below(2) as u8;
	}
	p
}

/// Apply operator `op` to a valid file. Returns the mutated bytes and a
/// human-readable description.
pub fn apply(op: &str, bytes: &[u8], m: &Model, rng: &mut Rng) -> (Vec<u8>, String) {
	let mut p = split(bytes, m);
	let fe = frame_event_indices(&p);
	let some_id = p.events.iter().find(|(c, _)| *c == 0x37).map_or(-123, |(_, pl)| i32::from_be_bytes([pl[0], pl[1], pl[2], pl[3]]));
	match op {
		"byte-set-header" => {
			if fe.is_empty() {
				return apply("byte-set-any", bytes, m, rng);
			}
			let i = *rng.pick(&fe);
			let (c, pl) = &mut p.events[i];
			let off = rng.below(pl.len().min(6));
			let val = if rng.chance(1, 2) { *rng.pick(&INTERESTING) } else { rng.byte() };
			pl[off] = val;
			let d = format!("event #{} ({:#04x}) payload[{}] = {:#04x}", i, c, off, val);
			(assemble(&p, true), d)
		}
		"byte-set-any" => {
			let mut b = bytes.to_vec();
			let off = rng.below(b.len());
			let val = if rng.chance(1, 2) { *rng.pick(&INTERESTING) } else { rng.byte() };
			b[off] = val;
			(b, format!("byte[{}] = {:#04x}", off, val))
		}
		"bit-flip" => {
			let mut b = bytes.to_vec();
			let off = rng.below(b.len());
			let bit = rng.below(8);
			b[off] ^= 1 << bit;
			(b, format!("flip bit {} of byte[{}]", bit, off))
		}
		"frame-id" => {
			if fe.is_empty() {
				return apply("byte-set-any", bytes, m, rng);
			}
			let i = *rng.pick(&fe);
			let id = *rng.pick(&[i32::MIN, i32::MAX, i32::MAX - 1, -124, -123, -122, 0, some_id + 1, some_id - 1, some_id + 2, some_id.wrapping_add(1000)]);
			let (c, pl) = &mut p.events[i];
			if pl.len() >= 4 {
				pl[..4].copy_from_slice(&id.to_be_bytes());
			}
			let d = format!("event #{} ({:#04x}) frame id = {}", i, c, id);
			(assemble(&p, true), d)
		}
		"port-byte" | "follower-flag" => {
			let idx: Vec<usize> = p.events.iter().enumerate().filter(|(_, (c, _))| *c == 0x37 || *c == 0x38).map(|(i, _)| i).collect();
			if idx.is_empty() {
				return apply("byte-set-any", bytes, m, rng);
			}
			let i = *rng.pick(&idx);
			let (c, pl) = &mut p.events[i];
			let d;
			if op == "port-byte" {
				let v = *rng.pick(&[0u8, 1, 2, 3, 4, 5, 6, 0x7f, 0x80, 0xff]);
				pl[4] = v;
				d = format!("event #{} ({:#04x}) port = {}", i, c, v);
			} else {
				pl[5] ^= 1;
				d = format!("event #{} ({:#04x}) follower flag flipped to {}", i, c, pl[5]);
			}
			(assemble(&p, true), d)
		}
		"event-delete" => {
			if p.events.len() < 2 {
				return apply("byte-set-any", bytes, m, rng);
			}
			let i = rng.range(0, p.events.len() - 1);
			let c = p.events[i].0;
			p.events.remove(i);
			(assemble(&p, rng.chance(3, 4)), format!("delete event #{} ({:#04x})", i, c))
		}
		"event-duplicate" => {
			let i = rng.below(p.events.len());
			let e = p.events[i].clone();
			let n = if rng.chance(1, 8) { rng.range(2, 40) } else { 1 };
			for _ in 0..n {
				p.events.insert(i, e.clone());
			}
			(assemble(&p, rng.chance(3, 4)), format!("duplicate event #{} ({:#04x}) x{}", i, e.0, n))
		}
		"event-swap" => {
			if p.events.len() < 3 {
				return apply("byte-set-any", bytes, m, rng);
			}
			let i = rng.range(1, p.events.len() - 2);
			p.events.swap(i, i + 1);
			(assemble(&p, true), format!("swap events #{} and #{} ({:#04x},{:#04x})", i, i + 1, p.events[i].0, p.events[i + 1].0))
		}
		"event-move" => {
			if p.events.len() < 3 {
				return apply("byte-set-any", bytes, m, rng);
			}
			let i = rng.range(0, p.events.len() - 1);
			let e = p.events.remove(i);
			let j = rng.range(0, p.events.len());
			let c = e.0;
			p.events.insert(j, e);
			(assemble(&p, true), format!("move event #{} ({:#04x}) to #{}", i, c, j))
		}
		"event-illegal-declared" | "event-illegal-undeclared" => {
			// an event kind the version has no table entry / columns for
			let all = [0x37u8, 0x38, 0x3A, 0x3B, 0x3C, 0x3D, 0x10, 0x35, 0x36, 0x39];
			let missing: Vec<u8> = all.iter().copied().filter(|c| !p.table.iter().any(|(t, _)| t == c)).collect();
			let code = if !missing.is_empty() && rng.chance(3, 4) { *rng.pick(&missing) } else { *rng.pick(&all) };
			let declared = op == "event-illegal-declared";
			let size = match p.table.iter().find(|(c, _)| *c == code) {
				Some((_, s)) => *s as usize,
				None => {
					let s = if code == 0x10 { if rng.chance(2, 3) { 516 } else { rng.range(1, 600) } } else { *rng.pick(&[1usize, 3, 4, 5, 6, 8, 12, 44, 64, 84]) };
					if declared {
						p.table.push((code, s as u16));
					}
					s
				}
			};
			let j = rng.range(1, p.events.len());
			let mut pl = payload_for(code, size, rng, some_id);
			if code == 0x10 && size == 516 {
				pl[512..514].copy_from_slice(&(rng.range(0, 512) as u16).to_be_bytes());
				pl[514] = *rng.pick(&all);
				pl[515] = rng.below(2) as u8;
			}
			p.events.insert(j, (code, pl));
			(assemble(&p, true), format!("insert event {:#04x} (size {}, declared in table: {}) at #{}", code, size, declared || p.table.iter().any(|(c, _)| *c == code), j))
		}
		"raw-len" => {
			let actual = (assemble(&p, true).len() - 15 - p.tail.len()) as u32;
			let consumed_start = (2 + p.table.len() * 3 + 1 + p.events[0].1.len()) as u32;
			let (r1, r2) = (rng.below(4000) as u32, rng.below(4000) as u32);
			let v = *rng.pick(&[0u32, 1, actual - 1, actual + 1, consumed_start, consumed_start - 1, consumed_start + 1, consumed_start + 2, u32::MAX, u32::MAX - 1, 0x8000_0000, actual / 2, actual.wrapping_add(r1), actual.saturating_sub(r2)]);
			p.declared = v;
			(assemble(&p, false), format!("declared raw length = {} (actual {})", v, actual))
		}
		"table-size" => {
			let i = rng.below(p.table.len());
			let old = p.table[i].1;
			let r1 = rng.next() as u16;
			let v = *rng.pick(&[0u16, 1, 2, 3, 4, 5, 6, 7, old.wrapping_sub(1), old.wrapping_add(1), old / 2, 515, 516, 517, 65535, r1]);
			p.table[i].1 = v;
			// keep the events as they are: the file is now inconsistent
			(assemble(&p, rng.chance(1, 2)), format!("table entry {:#04x}: size {} -> {}", p.table[i].0, old, v))
		}
		"table-drop" => {
			let i = rng.below(p.table.len());
			let (c, _) = p.table.remove(i);
			(assemble(&p, true), format!("drop table entry {:#04x}", c))
		}
		"table-dup" => {
			let i = rng.below(p.table.len());
			let mut e = p.table[i];
			if rng.chance(1, 2) {
				e.1 = e.1.wrapping_add(rng.range(1, 9) as u16);
			}
			let j = rng.range(0, p.table.len());
			p.table.insert(j, e);
			(assemble(&p, true), format!("duplicate table entry {:#04x} (size {}) at {}", e.0, e.1, j))
		}
		"table-garbage" => {
			// raw edit of the table length byte or code bytes
			let mut b = bytes.to_vec();
			let d;
			match rng.below(3) {
				0 => {
					let v = rng.byte();
					b[16] = v;
					d = format!("table length byte = {}", v);
				}
				1 => {
					let v = rng.byte();
					b[15] = v;
					d = format!("first raw byte (0x35) = {:#04x}", v);
				}
				_ => {
					let i = rng.below(p.table.len());
					let v = *rng.pick(&[0x35u8, 0x36, 0x39, 0x10, 0x37, 0xff, 0x00]);
					b[17 + 3 * i] = v;
					d = format!("table entry {} code = {:#04x}", i, v);
				}
			}
			(b, d)
		}
		"splitter-field" => {
			let idx: Vec<usize> = p.events.iter().enumerate().filter(|(_, (c, pl))| *c == 0x10 && pl.len() == 516).map(|(i, _)| i).collect();
			if idx.is_empty() {
				return apply("splitter-insert", bytes, m, rng);
			}
			let i = *rng.pick(&idx);
			let pl = &mut p.events[i].1;
			let d;
			match rng.below(3) {
				0 => {
					let v = *rng.pick(&[513u16, 514, 1024, 65535, 0, 1, 511]);
					pl[512..514].copy_from_slice(&v.to_be_bytes());
					d = format!("splitter #{} actual_size = {}", i, v);
				}
				1 => {
					let v = *rng.pick(&[0x37u8, 0x38, 0x3A, 0x3B, 0x3C, 0x39, 0x36, 0x35, 0x10, 0xff, 0x00]);
					pl[514] = v;
					d = format!("splitter #{} wraps event {:#04x}", i, v);
				}
				_ => {
					pl[515] ^= 1;
					d = format!("splitter #{} final flag -> {}", i, pl[515]);
				}
			}
			(assemble(&p, true), d)
		}
		"splitter-insert" => {
			if !p.table.iter().any(|(c, _)| *c == 0x10) {
				p.table.push((0x10, 516));
			}
			let wrapped = *rng.pick(&[0x3Du8, 0x37, 0x38, 0x3A, 0x3B, 0x3C, 0x39, 0x36, 0xff]);
			let n = rng.range(1, 3);
			let j = rng.range(1, p.events.len());
			for k in 0..n {
				let mut pl = rng.bytes(516);
				pl[512..514].copy_from_slice(&(*rng.pick(&[512u16, 100, 0, 6, 4])).to_be_bytes());
				pl[514] = wrapped;
				pl[515] = (k + 1 == n && rng.chance(4, 5)) as u8;
				p.events.insert(j, (0x10, pl));
			}
			(assemble(&p, true), format!("insert {} splitter blocks wrapping {:#04x} at #{}", n, wrapped, j))
		}
		"start-block" => {
			let st = &mut p.events[0].1;
			let off = if rng.chance(1, 3) { rng.below(st.len()) } else { *rng.pick(&[0usize, 1, 2, 0x65, 0x89, 0xAD, 0xD1, 0x140, 0x144, 0x160, 0x1A4, 0x220, 0x248, 0x2BC, 0x2BD]) };
			if off < st.len() {
				let v = if rng.chance(1, 2) { *rng.pick(&[0x80u8, 0xff, 0xfd, 0xa0, 0x81, 3, 14, 0]) } else { rng.byte() };
				st[off] = v;
				return (assemble(&p, true), format!("game start payload[{:#x}] = {:#04x}", off, v));
			}
			apply("byte-set-any", bytes, m, rng)
		}
		"end-block" => {
			let idx: Vec<usize> = p.events.iter().enumerate().filter(|(_, (c, _))| *c == 0x39).map(|(i, _)| i).collect();
			if idx.is_empty() {
				return apply("byte-set-any", bytes, m, rng);
			}
			let i = *rng.pick(&idx);
			let pl = &mut p.events[i].1;
			let off = rng.below(pl.len());
			let v = *rng.pick(&[4u8, 5, 6, 8, 0x80, 0xfe, 0xff, 0x7f]);
			pl[off] = v;
			(assemble(&p, true), format!("game end payload[{}] = {:#04x}", off, v))
		}
		"metadata-deep" => {
			let depth = *rng.pick(&[1usize, 10, 100, 127, 128, 129, 1000, 5000, 20000, 100000]);
			let mut t = b"U\x08metadata{".to_vec();
			for _ in 0..depth {
				t.extend_from_slice(b"U\x01a{");
			}
			if rng.chance(3, 4) {
				for _ in 0..depth {
					t.push(b'}');
				}
				t.extend_from_slice(b"}}");
			}
			p.tail = t;
			(assemble(&p, true), format!("metadata nested {} deep", depth))
		}
		"metadata-garbage" => {
			let mut t = if p.tail.len() > 12 { p.tail.clone() } else { b"U\x08metadata{U\x03keySU\x03val}}".to_vec() };
			let d;
			match rng.below(5) {
				0 => {
					let off = rng.below(t.len());
					let v = *rng.pick(&[b'U', b'S', b'l', b'{', b'}', 0xff, 0x00, 0x80, b'[', b'i']);
					t[off] = v;
					d = format!("metadata byte[{}] = {:#04x}", off, v);
				}
				1 => {
					t = b"U\x08metadata{U\xffkey".to_vec();
					d = "metadata key length 255 with 3 bytes left".to_string();
				}
				2 => {
					t = b"U\x08metadata{U\x02\xff\xfeSU\x01a}}".to_vec();
					d = "metadata key invalid UTF-8".to_string();
				}
				3 => {
					let n = rng.below(t.len());
					t.truncate(n);
					d = format!("metadata truncated to {} bytes", n);
				}
				_ => {
					let n = rng.range(0, 64);
					t = rng.bytes(n);
					d = "metadata replaced by random bytes".to_string();
				}
			}
			p.tail = t;
			(assemble(&p, true), d)
		}
		"metadata-types" => {
			// every UBJSON type marker (also ones Slippi never writes) as a value, with edge payloads
			let markers = [b'Z', b'N', b'T', b'F', b'i', b'U', b'I', b'l', b'L', b'd', b'D', b'C', b'S', b'H', b'[', b'{', b']', b'}', b'#', b'$'];
			let mk = *rng.pick(&markers);
			let payload: Vec<u8> = match rng.below(6) {
				0 => vec![0xff; 8],
				1 => vec![0x7f, 0xf0, 0, 0, 0, 0, 0, 0],
				2 => vec![0x7f, 0xc0, 0, 0, 0x7f, 0x80, 0, 0],
				3 => vec![0; 8],
				4 => vec![b'U', 0xff],
				_ => rng.bytes(8),
			};
			let mut t = b"U\x08metadata{U\x03key".to_vec();
			t.push(mk);
			t.extend_from_slice(&payload);
			if rng.chance(1, 2) {
				t.extend_from_slice(b"U\x01kSU\x01v");
			}
			t.extend_from_slice(b"}}");
			p.tail = t;
			(assemble(&p, true), format!("metadata value with UBJSON marker {:?} and payload {:02x?}", mk as char, payload))
		}
		"random-bytes" => {
			let n = *rng.pick(&[0usize, 1, 10, 11, 14, 15, 16, 17, 40, 400, 4000]);
			let mut b = rng.bytes(n);
			let with_sig = rng.chance(2, 3);
			if with_sig {
				let mut s = SIG.to_vec();
				if rng.chance(1, 2) {
					s.extend_from_slice(&(rng.below(5000) as u32).to_be_bytes());
					s.push(0x35);
					if rng.chance(1, 2) {
						s.push(1 + 3 * rng.below(20) as u8);
					}
				}
				s.extend_from_slice(&b);
				b = s;
			}
			(b, format!("{} random bytes, signature: {}", n, with_sig))
		}
		"truncate" => {
			let n = rng.below(bytes.len());
			(bytes[..n].to_vec(), format!("truncate to {} bytes", n))
		}
		"tail-garbage" => {
			let mut b = bytes.to_vec();
			if rng.chance(1, 2) {
				b.pop();
			}
			let n = rng.range(1, 40);
			b.extend_from_slice(&rng.bytes(n));
			(b, "garbage after / instead of the closing brace".to_string())
		}
		"double-mutation" => {
			let o1 = *rng.pick(&OPS[..OPS.len() - 1]);
			let (b1, d1) = apply(o1, bytes, m, rng);
			// second, byte-level mutation on the result (it may no longer parse)
			let o2 = *rng.pick(&["byte-set-any", "bit-flip", "truncate"]);
			if b1.is_empty() {
				return (b1, d1);
			}
			let mut b2 = b1.clone();
			let d2;
			match o2 {
				"truncate" => {
					let n = rng.below(b2.len());
					b2.truncate(n);
					d2 = format!("truncate to {}", n);
				}
				"bit-flip" => {
					let off = rng.below(b2.len());
					b2[off] ^= 1 << rng.below(8);
					d2 = format!("flip a bit of byte[{}]", off);
				}
				_ => {
					let off = rng.below(b2.len());
					b2[off] = rng.byte();
					d2 = format!("byte[{}] = {:#04x}", off, b2[off]);
				}
			}
			(b2, format!("{} + {}", d1, d2))
		}
		_ => (bytes.to_vec(), "identity".into()),
	}
}
