//! Thin, panic-guarded wrappers around peppi's public API, fixtures, and the
//! shared workload space.

use crate::driver::{guard, norm_loc, norm_msg, Panic};
use crate::gen::{self, Spec};
use crate::iofault::Src;
use crate::rng::Rng;
use crate::spec;
use peppi::game::immutable::Game;
use peppi::io::{peppi as slpp, slippi};
use std::io::Cursor;

#[derive(Debug)]
pub enum Fail {
	Err(String),
	Panic(Panic),
}

impl Fail {
	pub fn sig(&self) -> String {
		match self {
			Fail::Err(e) => format!("err:{}", norm_msg(e)),
			Fail::Panic(p) => format!("panic:{}:{}", norm_loc(&p.loc), norm_msg(&p.msg)),
		}
	}
	pub fn text(&self) -> String {
		match self {
			Fail::Err(e) => format!("Err({})", e),
			Fail::Panic(p) => format!("panic at {}: {}", p.loc, p.msg),
		}
	}
	pub fn is_panic(&self) -> bool {
		matches!(self, Fail::Panic(_))
	}
}

fn flat<T, E: std::fmt::Display>(r: Result<Result<T, E>, Panic>) -> Result<T, Fail> {
	match r {
		Ok(Ok(v)) => Ok(v),
		Ok(Err(e)) => Err(Fail::Err(e.to_string())),
		Err(p) => Err(Fail::Panic(p)),
	}
}

pub fn slp_read(bytes: &[u8], skip: bool, hash: bool) -> Result<Game, Fail> {
	let opts = slippi::de::Opts { skip_frames: skip, compute_hash: hash, debug: None };
	flat(guard(|| slippi::read(Cursor::new(bytes), Some(&opts))))
}

pub fn slp_read_src(src: Src, skip: bool, hash: bool) -> Result<Game, Fail> {
	let opts = slippi::de::Opts { skip_frames: skip, compute_hash: hash, debug: None };
	flat(guard(move || slippi::read(src, Some(&opts))))
}

pub fn slp_write(game: &Game) -> Result<Vec<u8>, Fail> {
	flat(guard(|| {
		let mut out = Vec::new();
		slippi::write(&mut out, game).map(|_| out)
	}))
}

/// Write through an instrumented sink; returns (result, sink).
pub fn slp_write_sink(game: &Game, mut sink: crate::iofault::Sink) -> (Result<(), Fail>, crate::iofault::Sink) {
	let r = flat(guard(|| slippi::write(&mut sink, game)));
	(r, sink)
}

pub fn slpp_write_sink(game: Game, comp: Comp, mut sink: crate::iofault::Sink) -> (Result<(), Fail>, crate::iofault::Sink) {
	let opts = slpp::ser::Opts {
		compression: match comp {
			Comp::None => None,
			Comp::Lz4 => Some(arrow2::io::ipc::write::Compression::LZ4),
			Comp::Zstd => Some(arrow2::io::ipc::write::Compression::ZSTD),
		},
	};
	let r = match guard(|| slpp::write(&mut sink, game, Some(&opts)).map_err(|e| e.to_string())) {
		Ok(Ok(())) => Ok(()),
		Ok(Err(e)) => Err(Fail::Err(e)),
		Err(p) => Err(Fail::Panic(p)),
	};
	(r, sink)
}

#[derive(Clone, Copy, Debug, PartialEq, Eq)]
pub enum Comp {
	None,
	Lz4,
	Zstd,
}
impl Comp {
	pub const ALL: [Comp; 3] = [Comp::None, Comp::Lz4, Comp::Zstd];
	pub fn name(self) -> &'static str {
		match self {
			Comp::None => "none",
			Comp::Lz4 => "lz4",
			Comp::Zstd => "zstd",
		}
	}
}

pub fn slpp_write(game: Game, comp: Comp) -> Result<Vec<u8>, Fail> {
	let opts = slpp::ser::Opts {
		compression: match comp {
			Comp::None => None,
			Comp::Lz4 => Some(arrow2::io::ipc::write::Compression::LZ4),
			Comp::Zstd => Some(arrow2::io::ipc::write::Compression::ZSTD),
		},
	};
	flat(guard(move || {
		let mut out = Vec::new();
		slpp::write(&mut out, game, Some(&opts)).map(|_| out)
	}))
}

pub fn slpp_read(bytes: &[u8], skip: bool) -> Result<Game, Fail> {
	let opts = slpp::de::Opts { skip_frames: skip };
	flat(guard(|| slpp::read(Cursor::new(bytes), Some(&opts))))
}

/// Read a .slpp through the instrumented, fragmenting source.
pub fn slpp_read_src(src: Src, skip: bool) -> Result<Game, Fail> {
	let opts = slpp::de::Opts { skip_frames: skip };
	flat(guard(move || slpp::read(src, Some(&opts))))
}

pub fn fixtures() -> Vec<(String, Vec<u8>)> {
	let mut out = vec![];
	let dir = std::env::var("PVH_REPO").unwrap_or_else(|_| "/repo".into()) + "/tests/data";
	if let Ok(rd) = std::fs::read_dir(&dir) {
		let mut names: Vec<_> = rd.filter_map(|e| e.ok()).map(|e| e.path()).filter(|p| p.extension().map_or(false, |x| x == "slp")).collect();
		names.sort();
		for p in names {
			if let Ok(b) = std::fs::read(&p) {
				// only well-formed fixtures take part in workloads
				if crate::model::parse(&b).is_err() {
					continue;
				}
				out.push((p.file_name().unwrap().to_string_lossy().to_string(), b));
			}
		}
	}
	out
}

/// First position where two byte strings differ, with a little context.
pub fn first_diff(a: &[u8], b: &[u8]) -> String {
	let n = a.len().min(b.len());
	let i = (0..n).find(|&i| a[i] != b[i]).unwrap_or(n);
	let ctx = |x: &[u8]| x[i.min(x.len())..(i + 8).min(x.len())].iter().map(|b| format!("{:02x}", b)).collect::<Vec<_>>().join("");
	format!("lengths {} vs {}, first difference at byte {} ({} vs {})", a.len(), b.len(), i, ctx(a), ctx(b))
}

/// Locate a file offset in the model's event list: "event #k code 0x37 +off".
pub fn locate(m: &crate::model::Model, off: usize) -> String {
	if off < 15 {
		return format!("file header +{}", off);
	}
	let mut last = "payload table".to_string();
	for (k, (code, at, len)) in m.events.iter().enumerate() {
		if off >= *at && off <= at + len {
			return format!("event #{} code {:#04x} payload offset {}", k, code, off as i64 - *at as i64 - 1);
		}
		if off > at + len {
			last = format!("after event #{} code {:#04x}", k, code);
		}
	}
	last
}

// ------------------------------------------------------------ workload space

/// Deterministic sweep + seeded random specs shared by the round-trip-style
/// monitors. Index space:
///   [0, F)                fixtures (handled by the monitors themselves)
///   then `sweep()` entries, then random entries.
pub struct Space {
	pub sweep: Vec<Spec>,
	pub n_random: usize,
	pub size: usize,
}

fn shape_matrix(ver: (u8, u8, u8)) -> Vec<Spec> {
	// a matrix of shapes for one layout
	let v = (ver.0, ver.1);
	let mut out = vec![];
	let mut rng = Rng::derive(0xC0FFEE, (ver.0 as u64) << 8 | ver.1 as u64);
	let cfgs: Vec<Vec<(u8, bool)>> = vec![
		vec![(0, false)],
		vec![(0, false), (1, false)],
		vec![(1, false), (3, false)],
		vec![(0, true), (1, false)],
		vec![(0, true), (1, true), (2, true), (3, true)],
		vec![(0, false), (1, false), (2, false), (3, false)],
		vec![(2, true)],
		vec![(0, false), (2, true), (3, false)],
	];
	for (ci, ports) in cfgs.iter().enumerate() {
		let nchars: usize = ports.iter().map(|(_, i)| 1 + *i as usize).sum();
		// presence patterns: all present; leader absent first; follower absent last; never present; alternating
		let patterns: Vec<Box<dyn Fn(usize, usize, usize) -> bool>> = vec![
			Box::new(|_r, _c, _n| true),
			Box::new(|r, c, _n| !(r == 0 && c == 0)),
			Box::new(move |r, c, n| !(r == n - 1 && c == nchars - 1)),
			Box::new(move |_r, c, _n| c != nchars - 1 || nchars == 1),
			Box::new(|r, c, _n| (r + c) % 2 == 0),
			Box::new(|r, c, _n| !(r >= 1 && r <= 2 && c == 0)),
		];
		for (pi, pat) in patterns.iter().enumerate() {
			let n = 5;
			let mut frames = vec![];
			let mut id = -123;
			for r in 0..n {
				let mut present: Vec<bool> = (0..nchars).map(|c| pat(r, c, n)).collect();
				if !spec::gte(v, (2, 2)) && !present.iter().any(|p| *p) {
					present[0] = true;
				}
				frames.push(gen::FrameSpec { id, present, items: if spec::gte(v, (3, 0)) { (r + pi) % 3 } else { 0 } });
				// rollback pattern on some shapes for >= 2.2
				if spec::gte(v, (2, 2)) && (ci + pi) % 3 == 0 && r == 2 {
					id -= 1;
				} else {
					id += 1;
				}
			}
			let mut s = gen::base_spec(ver, ports.clone(), 0);
			s.frames = frames;
			s.rich_start = (ci + pi) % 2 == 0;
			s.ends = [1, 0, 2, 1][(ci + pi) % 4];
			s.metadata = if (ci + pi) % 3 == 1 { None } else { Some(gen::gen_meta(&mut rng, 2, 3)) };
			if spec::gte(v, (3, 3)) {
				s.gecko_blocks = [0, 1, 3][(ci + pi) % 3];
				// every third gecko shape fills its last block exactly (actual size a multiple of 512)
				s.gecko_tail = if s.gecko_blocks > 0 && pi % 3 != 1 { 7 + ci } else { 0 };
			}
			s.ptypes = ports.iter().enumerate().map(|(i, _)| ((i + pi) % 3) as u8).collect();
			out.push(s);
		}
	}
	// zero frames, one frame
	for n in [0usize, 1] {
		let mut s = gen::base_spec(ver, vec![(0, false), (1, false)], n);
		s.metadata = Some(gen::gen_meta(&mut rng, 1, 2));
		out.push(s);
	}
	// no occupied port at all
	out.push(gen::base_spec(ver, vec![], if spec::gte(v, (2, 2)) { 2 } else { 0 }));
	out
}

impl Space {
	pub fn new(thorough: bool) -> Space {
		let mut sweep = vec![];
		// every (major, minor) with a small fixed shape
		for (i, v) in spec::all_versions().into_iter().enumerate() {
			let ports = if i % 2 == 0 { vec![(0, false), (1, false)] } else { vec![(0, true), (3, false)] };
			let mut s = gen::base_spec((v.0, v.1, if v == (3, 16) { 0 } else { (i % 7) as u8 }), ports, 3);
			s.rich_start = i % 3 == 0;
			sweep.push(s);
		}
		// every distinct layout with a matrix of shapes
		for v in spec::layout_versions() {
			sweep.extend(shape_matrix((v.0, v.1, 0)));
		}
		if thorough {
			// all 81 port/ICs configurations on three regimes
			for ver in [(1, 0, 0), (2, 2, 0), (3, 16, 0), (3, 0, 0), (3, 9, 0)] {
				for ports in gen::all_port_configs() {
					let n = if ports.is_empty() && ver.0 < 2 { 0 } else { 4 };
					let mut s = gen::base_spec(ver, ports, n);
					let nchars = s.chars().len();
					if nchars > 1 {
						s.frames[1].present[nchars - 1] = false;
						s.frames[3].present[0] = false;
					}
					sweep.push(s);
				}
			}
		}
		Space { sweep, n_random: if thorough { 400000 } else { 12000 }, size: if thorough { 120 } else { 24 } }
	}
	pub fn len(&self) -> usize {
		self.sweep.len() + self.n_random
	}
	pub fn spec(&self, i: usize, seed: u64) -> (Spec, Rng) {
		if i < self.sweep.len() {
			(self.sweep[i].clone(), Rng::derive(0x5EED, i as u64))
		} else {
			let mut rng = Rng::derive(seed, i as u64);
			let versions = spec::all_versions();
			let layouts = spec::layout_versions();
			let v = if rng.chance(2, 3) { *rng.pick(&layouts) } else { *rng.pick(&versions) };
			let size = if rng.chance(1, 50) { self.size * 20 } else { self.size };
			// 3.16.p with p > 0 is above the maximum supported version (3.16.0)
			let patch = if v == (3, 16) { 0 } else { rng.byte() };
			let s = gen::random_spec(&mut rng, (v.0, v.1, patch), size);
			(s, rng)
		}
	}
}

pub fn spec_classes(s: &Spec) -> Vec<String> {
	let v = s.v();
	let layout = spec::layout_versions().into_iter().filter(|l| spec::gte(v, *l)).last().unwrap_or((0, 1));
	let regime = if spec::gte(v, (3, 0)) { "start+end" } else if spec::gte(v, (2, 2)) { "start-only" } else { "none" };
	let mask: String = (0..4u8).map(|p| match s.ports.iter().find(|(q, _)| *q == p) { Some((_, true)) => 'I', Some(_) => 'x', None => '-' }).collect();
	let absent = s.frames.iter().any(|f| f.present.iter().any(|p| !p));
	let rollback = s.frames.windows(2).any(|w| w[1].id <= w[0].id);
	let items = s.frames.iter().any(|f| f.items > 0);
	vec![
		format!("layout={}.{}", layout.0, layout.1),
		format!("regime={} ports={}", regime, mask),
		format!("regime={} absent={} rollback={} items={} frames={}", regime, absent, rollback, items, match s.frames.len() { 0 => "0", 1 => "1", _ => "n" }),
		format!("gecko={} ends={} meta={}", s.gecko_blocks.min(2), s.ends, s.metadata.is_some()),
	]
}

// ------------------------------------------------------------ incremental API

pub use peppi::io::slippi::de::ParseState;

#[derive(Clone, Copy, Debug, PartialEq, Eq)]
pub enum Step {
	Start,
	Event(u8),
	Metadata,
	Close,
}

/// Drive the incremental API the way `slippi::read` does (header, start, one
/// event per call until the declared raw length is consumed or Game End is
/// seen, then optional metadata and the closing brace), calling `on_step`
/// after every call. `extra_after_end` = also consume a doubled Game End.
pub fn incremental<R: std::io::Read>(r: &mut R, on_step: impl FnMut(&ParseState, Step, u32)) -> Result<ParseState, Fail> {
	incremental_opts(r, None, on_step)
}

/// As `incremental`, passing `opts` to every call of the incremental API.
pub fn incremental_opts<R: std::io::Read>(r: &mut R, opts: Option<&peppi::io::slippi::de::Opts>, on_step: impl FnMut(&ParseState, Step, u32)) -> Result<ParseState, Fail> {
	incremental_full(r, opts, false, on_step)
}

/// `through_raw_end`: do not stop at the first Game End; keep calling `parse_event` for as long as
/// the declared raw length says there are events left (the second Game End of a doubled end). Only
/// meaningful when what follows the first Game End inside the raw element is events.
pub fn incremental_full<R: std::io::Read>(r: &mut R, opts: Option<&peppi::io::slippi::de::Opts>, through_raw_end: bool, mut on_step: impl FnMut(&ParseState, Step, u32)) -> Result<ParseState, Fail> {
	use peppi::io::slippi::de;

	let raw_len = flat(guard(|| de::parse_header(&mut *r, opts)))?;
	let mut state = flat(guard(|| de::parse_start(&mut *r, opts)))?;
	on_step(&state, Step::Start, raw_len);
	while raw_len == 0 || state.bytes_read() < raw_len as usize {
		let code = flat(guard(|| de::parse_event(&mut *r, &mut state, opts)))?;
		on_step(&state, Step::Event(code), raw_len);
		if code == 0x39 && !(through_raw_end && raw_len > 0) {
			break;
		}
	}
	// doubled Game End / junk inside raw: skip like the one-shot reader does
	if state.bytes_read() < raw_len as usize {
		// (never sized from the declared length: the file may claim 4 GiB)
		let want = (raw_len as usize - state.bytes_read()) as u64;
		let got = std::io::copy(&mut std::io::Read::take(&mut *r, want), &mut std::io::sink()).map_err(|e| Fail::Err(e.to_string()))?;
		if got < want {
			return Err(Fail::Err("failed to fill whole buffer".into()));
		}
	}
	let mut b = [0u8; 1];
	r.read_exact(&mut b).map_err(|e| Fail::Err(e.to_string()))?;
	match b[0] {
		0x55 => {
			flat(guard(|| de::parse_metadata(&mut *r, &mut state, opts)))?;
			on_step(&state, Step::Metadata, raw_len);
			r.read_exact(&mut b).map_err(|e| Fail::Err(e.to_string()))?;
			if b[0] != 0x7d {
				return Err(Fail::Err("expected closing brace".into()));
			}
		}
		0x7d => {}
		x => return Err(Fail::Err(format!("expected U or }} got {:#x}", x))),
	}
	on_step(&state, Step::Close, raw_len);
	Ok(state)
}

pub fn ports_of(start: &peppi::game::Start) -> Vec<peppi::frame::PortOccupancy> {
	peppi::game::port_occupancy(start)
}

/// Equality of two Game Start values that tolerates NaN floats (derived
/// PartialEq would call two identical NaN-carrying blocks different): the raw
/// blocks must be identical and the decoded values must render identically.
pub fn same_start(a: &peppi::game::Start, b: &peppi::game::Start) -> bool {
	a.bytes == b.bytes && format!("{:?}", a) == format!("{:?}", b)
}

/// Ports (0-based, with Ice Climbers flag) of a Game Start block.
pub fn spec_ports(start_block: &[u8]) -> Vec<(u8, bool)> {
	let chars = crate::view::occupied_chars(start_block);
	chars.iter().filter(|c| !c.1).map(|c| (c.0, chars.contains(&(c.0, true)))).collect()
}

/// A small generated replay with the given version and the ports of `start_block` but frame
/// content of its own: "another game of the same shape", for history and concurrency workloads
/// where a leak between two calls would otherwise be invisible (same game before and after).
pub fn sibling_game(ver: (u8, u8, u8), start_block: &[u8], nframes: usize, rng: &mut crate::rng::Rng) -> Option<Vec<u8>> {
	let ports = spec_ports(start_block);
	if ports.is_empty() {
		return None;
	}
	let s = crate::gen::base_spec(ver, ports, if ver.0 == 0 && ver.1 == 0 { 0 } else { nframes });
	Some(crate::gen::build(&s, rng).bytes)
}

/// Well-formed replays in which a structural element (the first Game End, the second Game End of a
/// doubled end, or the `U` that opens the metadata) STARTS `d` bytes before a multiple of
/// 4 KiB / 8 KiB / 64 KiB of FILE offset, d = 0..7: the element then straddles the boundary at
/// which a reader's internal buffer of that size would be refilled. Frame and item counts are
/// solved for; versions without item events only have the frame size to play with and are
/// skipped when no solution below 3 000 frames exists.
pub fn boundary_case(k: usize, seed: u64, out: &mut crate::driver::CaseOut) -> Option<(String, Vec<u8>, crate::model::Model)> {
	use crate::spec::Kind;
	let rng = Rng::derive(seed, 0xB0D + k as u64);
	let block = [65536usize, 8192, 65536, 4096][k % 4];
	let d = [0usize, 1, 2, 3, 4, 6, 7, 5][(k / 4) % 8];
	let element = ["second-game-end", "first-game-end", "metadata"][(k / 32) % 3];
	let v = [(3u8, 16u8), (3, 7), (3, 12), (3, 0), (3, 14), (3, 3), (2, 0), (1, 0)][(k / 96 + k) % 8];
	let ports: Vec<(u8, bool)> = match k % 3 {
		0 => vec![(0, false), (1, false)],
		1 => vec![(0, true), (2, false)],
		_ => vec![(1, false)],
	};
	let nchars: usize = ports.iter().map(|(_, i)| 1 + *i as usize).sum();
	let mut frame_bytes = nchars * (1 + Kind::Pre.payload_size(v) + 1 + Kind::Post.payload_size(v));
	for kd in [Kind::FStart, Kind::FEnd] {
		if kd.exists(v) {
			frame_bytes += 1 + kd.payload_size(v);
		}
	}
	let item_bytes = if Kind::Item.exists(v) { 1 + Kind::Item.payload_size(v) } else { 0 };
	let make = |n: usize, m: usize, rng: &mut Rng| {
		let mut s = gen::base_spec((v.0, v.1, 0), ports.clone(), n);
		for f in s.frames.iter_mut() {
			f.items = 0;
		}
		for i in 0..m {
			s.frames[i % n].items += 1;
		}
		s.ends = if element == "second-game-end" || k % 2 == 0 { 2 } else { 1 };
		s.gecko_blocks = if spec::gte(v, (3, 3)) { k % 2 } else { 0 };
		s.gecko_tail = if s.gecko_blocks > 0 { 7 } else { 0 };
		s.metadata = if element == "metadata" || k % 5 != 0 { Some(gen::gen_meta(rng, 1, 2)) } else { None };
		s
	};
	let locate = |m: &crate::model::Model| -> Option<usize> {
		let ends: Vec<usize> = m.events.iter().filter(|e| e.0 == 0x39).map(|e| e.1).collect();
		match element {
			"first-game-end" => ends.first().copied(),
			"second-game-end" => ends.get(1).copied(),
			_ => Some(15 + m.declared_raw_len as usize),
		}
	};
	let probe = gen::build(&make(1, 0, &mut rng.clone()), &mut rng.clone());
	let off0 = locate(&probe.truth)?;
	let target = (block - d) % block;
	let mut best: Option<(usize, usize)> = None;
	for extra in 0..3000usize {
		let m_max = if item_bytes == 0 { 0 } else { 900 };
		for m in 0..=m_max {
			if (off0 + extra * frame_bytes + m * item_bytes) % block == target {
				let cost = extra * frame_bytes + m * item_bytes;
				if best.map_or(true, |(e, mm)| cost < e * frame_bytes + mm * item_bytes) {
					best = Some((extra, m));
				}
				break;
			}
		}
		if let Some((e, mm)) = best {
			if (extra + 1) * frame_bytes > e * frame_bytes + mm * item_bytes {
				break;
			}
		}
	}
	let Some((extra, m)) = best else {
		out.observe("boundary_cases_without_solution", format!("v{}.{} frame_bytes={} block={} d={}", v.0, v.1, frame_bytes, block, d));
		return None;
	};
	let s = make(1 + extra, m, &mut rng.clone());
	let b = gen::build(&s, &mut rng.clone());
	let at = locate(&b.truth)?;
	if at % block != target {
		out.observe("boundary_cases_off_target", format!("{}: element at {} (mod {} = {}), wanted {}", s.describe(), at, block, at % block, target));
		return None;
	}
	match crate::model::parse(&b.bytes) {
		Ok(mm) if mm == b.truth && crate::model::well_formed(&mm).is_ok() => {}
		_ => {
			out.inconclusive.push(format!("boundary case: generator/model disagree on {}", s.describe()));
			return None;
		}
	}
	out.class(format!("boundary|{}|block={}|d={}|v{}.{}", element, block, d, v.0, v.1));
	Some((format!("{} [{} starts at file offset {} = {} x {} - {}]", s.describe(), element, at, (at + d) / block, block, d), b.bytes, b.truth))
}
