//! Observation of peppi's frame data through three independent routes, all
//! flattened to `path -> column of raw bit patterns`:
//!  * `cols_imm` / `cols_mut`: hand-written accessor table over the public
//!    column structs (one line per leaf field; not generated from frames.json);
//!  * `cols_arrow`: generic walk of the Arrow struct array by field *name*;
//!  * `row_flat`: the per-frame row view (`transpose::Frame`).
//! plus `expected_cols`: what the reference model + spec tables say the
//! columns must contain.

use crate::model::{Model, Occ};
use crate::spec::{self, Kind, V};
use arrow2::array::{Array, ListArray, PrimitiveArray, StructArray};
use arrow2::datatypes::DataType;
use peppi::frame::{immutable, mutable, transpose};
use std::collections::BTreeMap;

pub trait Bits: Copy {
	fn bits(self) -> u64;
}
impl Bits for u8 {
	fn bits(self) -> u64 {
		self as u64
	}
}
impl Bits for i8 {
	fn bits(self) -> u64 {
		self as u8 as u64
	}
}
impl Bits for u16 {
	fn bits(self) -> u64 {
		self as u64
	}
}
impl Bits for u32 {
	fn bits(self) -> u64 {
		self as u64
	}
}
impl Bits for i32 {
	fn bits(self) -> u64 {
		self as u32 as u64
	}
}
impl Bits for f32 {
	fn bits(self) -> u64 {
		self.to_bits() as u64
	}
}

#[derive(Clone, Debug, Default, PartialEq, Eq)]
pub struct Cols {
	/// leaf path -> (arrow-style type name, values)
	pub leaves: BTreeMap<String, (&'static str, Vec<u64>)>,
	/// struct path -> validity (None = no bitmap = all valid)
	pub validity: BTreeMap<String, Option<Vec<bool>>>,
	pub item_offsets: Option<Vec<i32>>,
	pub rows: usize,
}

trait TyName {
	const NAME: &'static str;
}
impl TyName for u8 {
	const NAME: &'static str = "UInt8";
}
impl TyName for i8 {
	const NAME: &'static str = "Int8";
}
impl TyName for u16 {
	const NAME: &'static str = "UInt16";
}
impl TyName for u32 {
	const NAME: &'static str = "UInt32";
}
impl TyName for i32 {
	const NAME: &'static str = "Int32";
}
impl TyName for f32 {
	const NAME: &'static str = "Float32";
}

fn put<T: Bits + TyName>(out: &mut Cols, path: String, vals: &[T]) {
	out.leaves.insert(path, (T::NAME, vals.iter().map(|v| v.bits()).collect()));
}

macro_rules! leaf {
	($out:expr, $p:expr, $name:expr, $arr:expr) => {
		put($out, format!("{}{}", $p, $name), &$arr.values()[..]);
	};
}
macro_rules! oleaf {
	($out:expr, $p:expr, $name:expr, $arr:expr) => {
		if let Some(a) = &$arr {
			put($out, format!("{}{}", $p, $name), &a.values()[..]);
		}
	};
}
macro_rules! val {
	($out:expr, $p:expr, $s:expr) => {
		$out.validity.insert($p.trim_end_matches('.').to_string(), $s.validity.as_ref().map(|b| b.iter().collect::<Vec<bool>>()));
	};
}

// One line per leaf field. The same token stream is instantiated for the
// mutable and the immutable structs (identical public field names).
macro_rules! pre_cols {
	($out:expr, $p:expr, $x:expr) => {{
		let p: &str = $p;
		val!($out, p, $x);
		leaf!($out, p, "random_seed", $x.random_seed);
		leaf!($out, p, "state", $x.state);
		val!($out, format!("{}position.", p), $x.position);
		leaf!($out, p, "position.x", $x.position.x);
		leaf!($out, p, "position.y", $x.position.y);
		leaf!($out, p, "direction", $x.direction);
		val!($out, format!("{}joystick.", p), $x.joystick);
		leaf!($out, p, "joystick.x", $x.joystick.x);
		leaf!($out, p, "joystick.y", $x.joystick.y);
		val!($out, format!("{}cstick.", p), $x.cstick);
		leaf!($out, p, "cstick.x", $x.cstick.x);
		leaf!($out, p, "cstick.y", $x.cstick.y);
		leaf!($out, p, "triggers", $x.triggers);
		leaf!($out, p, "buttons", $x.buttons);
		leaf!($out, p, "buttons_physical", $x.buttons_physical);
		val!($out, format!("{}triggers_physical.", p), $x.triggers_physical);
		leaf!($out, p, "triggers_physical.l", $x.triggers_physical.l);
		leaf!($out, p, "triggers_physical.r", $x.triggers_physical.r);
		oleaf!($out, p, "raw_analog_x", $x.raw_analog_x);
		oleaf!($out, p, "percent", $x.percent);
		oleaf!($out, p, "raw_analog_y", $x.raw_analog_y);
	}};
}
macro_rules! post_cols {
	($out:expr, $p:expr, $x:expr) => {{
		let p: &str = $p;
		val!($out, p, $x);
		leaf!($out, p, "character", $x.character);
		leaf!($out, p, "state", $x.state);
		val!($out, format!("{}position.", p), $x.position);
		leaf!($out, p, "position.x", $x.position.x);
		leaf!($out, p, "position.y", $x.position.y);
		leaf!($out, p, "direction", $x.direction);
		leaf!($out, p, "percent", $x.percent);
		leaf!($out, p, "shield", $x.shield);
		leaf!($out, p, "last_attack_landed", $x.last_attack_landed);
		leaf!($out, p, "combo_count", $x.combo_count);
		leaf!($out, p, "last_hit_by", $x.last_hit_by);
		leaf!($out, p, "stocks", $x.stocks);
		oleaf!($out, p, "state_age", $x.state_age);
		if let Some(sf) = &$x.state_flags {
			leaf!($out, p, "state_flags.0", sf.0);
			leaf!($out, p, "state_flags.1", sf.1);
			leaf!($out, p, "state_flags.2", sf.2);
			leaf!($out, p, "state_flags.3", sf.3);
			leaf!($out, p, "state_flags.4", sf.4);
		}
		oleaf!($out, p, "misc_as", $x.misc_as);
		oleaf!($out, p, "airborne", $x.airborne);
		oleaf!($out, p, "ground", $x.ground);
		oleaf!($out, p, "jumps", $x.jumps);
		oleaf!($out, p, "l_cancel", $x.l_cancel);
		oleaf!($out, p, "hurtbox_state", $x.hurtbox_state);
		if let Some(ve) = &$x.velocities {
			val!($out, format!("{}velocities.", p), ve);
			leaf!($out, p, "velocities.self_x_air", ve.self_x_air);
			leaf!($out, p, "velocities.self_y", ve.self_y);
			leaf!($out, p, "velocities.knockback_x", ve.knockback_x);
			leaf!($out, p, "velocities.knockback_y", ve.knockback_y);
			leaf!($out, p, "velocities.self_x_ground", ve.self_x_ground);
		}
		oleaf!($out, p, "hitlag", $x.hitlag);
		oleaf!($out, p, "animation_index", $x.animation_index);
		oleaf!($out, p, "last_hit_by_instance", $x.last_hit_by_instance);
		oleaf!($out, p, "instance_id", $x.instance_id);
	}};
}
macro_rules! item_cols {
	($out:expr, $p:expr, $x:expr) => {{
		let p: &str = $p;
		val!($out, p, $x);
		leaf!($out, p, "type", $x.r#type);
		leaf!($out, p, "state", $x.state);
		leaf!($out, p, "direction", $x.direction);
		val!($out, format!("{}velocity.", p), $x.velocity);
		leaf!($out, p, "velocity.x", $x.velocity.x);
		leaf!($out, p, "velocity.y", $x.velocity.y);
		val!($out, format!("{}position.", p), $x.position);
		leaf!($out, p, "position.x", $x.position.x);
		leaf!($out, p, "position.y", $x.position.y);
		leaf!($out, p, "damage", $x.damage);
		leaf!($out, p, "timer", $x.timer);
		leaf!($out, p, "id", $x.id);
		if let Some(mi) = &$x.misc {
			leaf!($out, p, "misc.0", mi.0);
			leaf!($out, p, "misc.1", mi.1);
			leaf!($out, p, "misc.2", mi.2);
			leaf!($out, p, "misc.3", mi.3);
		}
		oleaf!($out, p, "owner", $x.owner);
		oleaf!($out, p, "instance_id", $x.instance_id);
	}};
}
macro_rules! frame_cols {
	($out:expr, $f:expr) => {{
		put($out, "id".to_string(), &$f.id.values()[..]);
		$out.rows = $f.id.values().len();
		for pd in &$f.ports {
			let base = format!("ports.{}.", pd.port);
			val!($out, format!("{}leader.", base), pd.leader);
			pre_cols!($out, &format!("{}leader.pre.", base), pd.leader.pre);
			post_cols!($out, &format!("{}leader.post.", base), pd.leader.post);
			if let Some(fo) = &pd.follower {
				val!($out, format!("{}follower.", base), fo);
				pre_cols!($out, &format!("{}follower.pre.", base), fo.pre);
				post_cols!($out, &format!("{}follower.post.", base), fo.post);
			}
		}
		if let Some(s) = &$f.start {
			val!($out, "start.", s);
			leaf!($out, "start.", "random_seed", s.random_seed);
			oleaf!($out, "start.", "scene_frame_counter", s.scene_frame_counter);
		}
		if let Some(e) = &$f.end {
			val!($out, "end.", e);
			oleaf!($out, "end.", "latest_finalized_frame", e.latest_finalized_frame);
		}
		if let Some(it) = &$f.item {
			item_cols!($out, "item.", it);
		}
		if let Some(o) = &$f.item_offset {
			$out.item_offsets = Some(o.as_slice().to_vec());
		}
	}};
}

pub fn cols_imm(f: &immutable::Frame) -> Cols {
	let mut out = Cols::default();
	frame_cols!(&mut out, f);
	out
}

pub fn cols_mut(f: &mutable::Frame) -> Cols {
	let mut out = Cols::default();
	frame_cols!(&mut out, f);
	out
}

// ------------------------------------------------------------ Arrow, generic

/// Schema tree rendered as text lines "path: Type" in declaration order.
pub fn schema_lines(dt: &DataType, prefix: &str, out: &mut Vec<String>) {
	match dt {
		DataType::Struct(fields) => {
			out.push(format!("{}: Struct[{}]", if prefix.is_empty() { "<root>" } else { prefix.trim_end_matches('.') }, fields.len()));
			for f in fields {
				let p = format!("{}{}.", prefix, f.name);
				match &f.data_type {
					DataType::Struct(_) | DataType::List(_) => schema_lines(&f.data_type, &p, out),
					t => out.push(format!("{}{}: {:?}", prefix, f.name, t)),
				}
			}
		}
		DataType::List(inner) => {
			out.push(format!("{}: List<{}>", prefix.trim_end_matches('.'), inner.name));
			schema_lines(&inner.data_type, prefix, out);
		}
		t => out.push(format!("{}: {:?}", prefix.trim_end_matches('.'), t)),
	}
}

fn prim<T: arrow2::types::NativeType + Bits + TyName>(a: &dyn Array, path: &str, out: &mut Cols) -> bool {
	if let Some(p) = a.as_any().downcast_ref::<PrimitiveArray<T>>() {
		out.leaves.insert(path.to_string(), (T::NAME, p.values().iter().map(|v| v.bits()).collect()));
		// a primitive leaf carrying its own null mask is recorded too
		if let Some(v) = p.validity() {
			out.validity.insert(format!("{}#leaf", path), Some(v.iter().collect()));
		}
		true
	} else {
		false
	}
}

fn walk_arrow(a: &dyn Array, prefix: &str, out: &mut Cols) -> Result<(), String> {
	if let Some(s) = a.as_any().downcast_ref::<StructArray>() {
		out.validity.insert(prefix.trim_end_matches('.').to_string(), s.validity().map(|b| b.iter().collect()));
		for (f, v) in s.fields().iter().zip(s.values()) {
			let p = format!("{}{}.", prefix, f.name);
			walk_arrow(v.as_ref(), &p, out)?;
		}
		return Ok(());
	}
	if let Some(l) = a.as_any().downcast_ref::<ListArray<i32>>() {
		out.item_offsets = Some(l.offsets().as_slice().to_vec());
		if l.validity().is_some() {
			out.validity.insert(format!("{}#list", prefix.trim_end_matches('.')), l.validity().map(|b| b.iter().collect()));
		}
		return walk_arrow(l.values().as_ref(), prefix, out);
	}
	let path = prefix.trim_end_matches('.');
	if prim::<u8>(a, path, out) || prim::<i8>(a, path, out) || prim::<u16>(a, path, out) || prim::<u32>(a, path, out) || prim::<i32>(a, path, out) || prim::<f32>(a, path, out) {
		return Ok(());
	}
	Err(format!("unexpected arrow type at {}: {:?}", path, a.data_type()))
}

pub fn cols_arrow(a: &StructArray) -> Result<Cols, String> {
	let mut out = Cols::default();
	out.rows = a.len();
	walk_arrow(a, "", &mut out)?;
	// the root struct's own validity is stored under "" — drop if None
	if out.validity.get("") == Some(&None) {
		out.validity.remove("");
	}
	// also the "ports" and "ports.Pn" wrappers
	Ok(out)
}

// ------------------------------------------------------------ row view

pub type Row = BTreeMap<String, u64>;

fn pos(out: &mut Row, p: &str, x: &transpose::Position) {
	out.insert(format!("{}.x", p), x.x.bits());
	out.insert(format!("{}.y", p), x.y.bits());
}
fn opt<T: Bits>(out: &mut Row, p: String, x: Option<T>) {
	if let Some(v) = x {
		out.insert(p, v.bits());
	}
}

fn row_pre(out: &mut Row, p: &str, x: &transpose::Pre) {
	out.insert(format!("{}random_seed", p), x.random_seed.bits());
	out.insert(format!("{}state", p), x.state.bits());
	pos(out, &format!("{}position", p), &x.position);
	out.insert(format!("{}direction", p), x.direction.bits());
	pos(out, &format!("{}joystick", p), &x.joystick);
	pos(out, &format!("{}cstick", p), &x.cstick);
	out.insert(format!("{}triggers", p), x.triggers.bits());
	out.insert(format!("{}buttons", p), x.buttons.bits());
	out.insert(format!("{}buttons_physical", p), x.buttons_physical.bits());
	out.insert(format!("{}triggers_physical.l", p), x.triggers_physical.l.bits());
	out.insert(format!("{}triggers_physical.r", p), x.triggers_physical.r.bits());
	opt(out, format!("{}raw_analog_x", p), x.raw_analog_x);
	opt(out, format!("{}percent", p), x.percent);
	opt(out, format!("{}raw_analog_y", p), x.raw_analog_y);
}

fn row_post(out: &mut Row, p: &str, x: &transpose::Post) {
	out.insert(format!("{}character", p), x.character.bits());
	out.insert(format!("{}state", p), x.state.bits());
	pos(out, &format!("{}position", p), &x.position);
	out.insert(format!("{}direction", p), x.direction.bits());
	out.insert(format!("{}percent", p), x.percent.bits());
	out.insert(format!("{}shield", p), x.shield.bits());
	out.insert(format!("{}last_attack_landed", p), x.last_attack_landed.bits());
	out.insert(format!("{}combo_count", p), x.combo_count.bits());
	out.insert(format!("{}last_hit_by", p), x.last_hit_by.bits());
	out.insert(format!("{}stocks", p), x.stocks.bits());
	opt(out, format!("{}state_age", p), x.state_age);
	if let Some(sf) = &x.state_flags {
		out.insert(format!("{}state_flags.0", p), sf.0.bits());
		out.insert(format!("{}state_flags.1", p), sf.1.bits());
		out.insert(format!("{}state_flags.2", p), sf.2.bits());
		out.insert(format!("{}state_flags.3", p), sf.3.bits());
		out.insert(format!("{}state_flags.4", p), sf.4.bits());
	}
	opt(out, format!("{}misc_as", p), x.misc_as);
	opt(out, format!("{}airborne", p), x.airborne);
	opt(out, format!("{}ground", p), x.ground);
	opt(out, format!("{}jumps", p), x.jumps);
	opt(out, format!("{}l_cancel", p), x.l_cancel);
	opt(out, format!("{}hurtbox_state", p), x.hurtbox_state);
	if let Some(v) = &x.velocities {
		out.insert(format!("{}velocities.self_x_air", p), v.self_x_air.bits());
		out.insert(format!("{}velocities.self_y", p), v.self_y.bits());
		out.insert(format!("{}velocities.knockback_x", p), v.knockback_x.bits());
		out.insert(format!("{}velocities.knockback_y", p), v.knockback_y.bits());
		out.insert(format!("{}velocities.self_x_ground", p), v.self_x_ground.bits());
	}
	opt(out, format!("{}hitlag", p), x.hitlag);
	opt(out, format!("{}animation_index", p), x.animation_index);
	opt(out, format!("{}last_hit_by_instance", p), x.last_hit_by_instance);
	opt(out, format!("{}instance_id", p), x.instance_id);
}

fn row_item(out: &mut Row, p: &str, x: &transpose::Item) {
	out.insert(format!("{}type", p), x.r#type.bits());
	out.insert(format!("{}state", p), x.state.bits());
	out.insert(format!("{}direction", p), x.direction.bits());
	out.insert(format!("{}velocity.x", p), x.velocity.x.bits());
	out.insert(format!("{}velocity.y", p), x.velocity.y.bits());
	out.insert(format!("{}position.x", p), x.position.x.bits());
	out.insert(format!("{}position.y", p), x.position.y.bits());
	out.insert(format!("{}damage", p), x.damage.bits());
	out.insert(format!("{}timer", p), x.timer.bits());
	out.insert(format!("{}id", p), x.id.bits());
	if let Some(m) = &x.misc {
		out.insert(format!("{}misc.0", p), m.0.bits());
		out.insert(format!("{}misc.1", p), m.1.bits());
		out.insert(format!("{}misc.2", p), m.2.bits());
		out.insert(format!("{}misc.3", p), m.3.bits());
	}
	opt(out, format!("{}owner", p), x.owner);
	opt(out, format!("{}instance_id", p), x.instance_id);
}

/// Flatten a row view. Item k of the row lives under "item[k]."; structural
/// facts are recorded as pseudo-paths: "#ports" (count), "#items" (count or
/// absent), "#start"/"#end" (1 if Some).
pub fn row_flat(f: &transpose::Frame) -> Row {
	let mut out = Row::new();
	out.insert("id".into(), f.id.bits());
	out.insert("#ports".into(), f.ports.len() as u64);
	for pd in &f.ports {
		let base = format!("ports.{}.", pd.port);
		row_pre(&mut out, &format!("{}leader.pre.", base), &pd.leader.pre);
		row_post(&mut out, &format!("{}leader.post.", base), &pd.leader.post);
		if let Some(fo) = &pd.follower {
			row_pre(&mut out, &format!("{}follower.pre.", base), &fo.pre);
			row_post(&mut out, &format!("{}follower.post.", base), &fo.post);
		}
	}
	if let Some(s) = &f.start {
		out.insert("#start".into(), 1);
		out.insert("start.random_seed".into(), s.random_seed.bits());
		opt(&mut out, "start.scene_frame_counter".into(), s.scene_frame_counter);
	}
	if let Some(e) = &f.end {
		out.insert("#end".into(), 1);
		opt(&mut out, "end.latest_finalized_frame".into(), e.latest_finalized_frame);
	}
	if let Some(items) = &f.items {
		out.insert("#items".into(), items.len() as u64);
		for (k, it) in items.iter().enumerate() {
			row_item(&mut out, &format!("item[{}].", k), it);
		}
	}
	out
}

/// The row the columns imply at index `i` (same path scheme as `row_flat`).
pub fn row_from_cols(c: &Cols, i: usize) -> Row {
	let mut out = Row::new();
	let mut ports = std::collections::BTreeSet::new();
	for (path, (_, vals)) in &c.leaves {
		if path.starts_with("item.") {
			continue;
		}
		if let Some(rest) = path.strip_prefix("ports.") {
			ports.insert(rest.split('.').next().unwrap().to_string());
		}
		if let Some(v) = vals.get(i) {
			out.insert(path.clone(), *v);
		}
	}
	out.insert("#ports".into(), ports.len() as u64);
	if c.validity.contains_key("start") {
		out.insert("#start".into(), 1);
	}
	if c.validity.contains_key("end") {
		out.insert("#end".into(), 1);
	}
	if let Some(offs) = &c.item_offsets {
		if i + 1 < offs.len() {
			let (a, b) = (offs[i] as usize, offs[i + 1] as usize);
			out.insert("#items".into(), (b.saturating_sub(a)) as u64);
			for (k, j) in (a..b).enumerate() {
				for (path, (_, vals)) in &c.leaves {
					if let Some(rest) = path.strip_prefix("item.") {
						if let Some(v) = vals.get(j) {
							out.insert(format!("item[{}].{}", k, rest), *v);
						}
					}
				}
			}
		}
	}
	out
}

// ------------------------------------------------------------ expectation

#[derive(Clone, Debug, Default)]
pub struct Expected {
	/// leaf path -> (type name, per-row Some(bits) when the character/event is
	/// present in that occurrence, None when absent = value unconstrained)
	pub leaves: BTreeMap<String, (&'static str, Vec<Option<u64>>)>,
	/// "ports.Pn.leader" / "ports.Pn.follower" -> presence per row
	pub presence: BTreeMap<String, Vec<bool>>,
	pub item_offsets: Option<Vec<i32>>,
	pub rows: usize,
}

fn port_name(p: u8) -> String {
	format!("P{}", p + 1)
}

/// What the columns must be for history `m`, given the occupied characters
/// `chars` (port, follower) — derived from spec tables only.
pub fn expected_cols(m: &Model, chars: &[(u8, bool)]) -> Expected {
	let v: V = m.v();
	let mut e = Expected::default();
	e.rows = m.frames.len();
	e.leaves.insert("id".into(), ("Int32", m.frames.iter().map(|o| Some(o.id as u32 as u64)).collect()));
	let add = |e: &mut Expected, prefix: String, kind: Kind, payloads: Vec<Option<&Vec<u8>>>| {
		if !kind.exists(v) {
			return;
		}
		for f in kind.fields(v) {
			let col: Vec<Option<u64>> = payloads.iter().map(|p| p.map(|b| f.ty.read(b, f.off - 1))).collect();
			e.leaves.insert(format!("{}{}", prefix, f.path), (f.ty.arrow_name(), col));
		}
	};
	for (port, fol) in chars {
		let who = if *fol { "follower" } else { "leader" };
		let base = format!("ports.{}.{}", port_name(*port), who);
		let get = |o: &'_ Occ| o.chars.get(&(*port, *fol)).cloned();
		let presence: Vec<bool> = m.frames.iter().map(|o| get(o).map_or(false, |c| c.pre.is_some() || c.post.is_some())).collect();
		e.presence.insert(base.clone(), presence);
		let pres: Vec<Option<&Vec<u8>>> = m.frames.iter().map(|o| o.chars.get(&(*port, *fol)).and_then(|c| c.pre.as_ref())).collect();
		let posts: Vec<Option<&Vec<u8>>> = m.frames.iter().map(|o| o.chars.get(&(*port, *fol)).and_then(|c| c.post.as_ref())).collect();
		add(&mut e, format!("{}.pre.", base), Kind::Pre, pres);
		add(&mut e, format!("{}.post.", base), Kind::Post, posts);
	}
	add(&mut e, "start.".into(), Kind::FStart, m.frames.iter().map(|o| o.start.as_ref()).collect());
	add(&mut e, "end.".into(), Kind::FEnd, m.frames.iter().map(|o| o.end.as_ref()).collect());
	if Kind::Item.exists(v) {
		let mut offs = vec![0i32];
		let mut all: Vec<Option<&Vec<u8>>> = vec![];
		for o in &m.frames {
			for it in &o.items {
				all.push(Some(it));
			}
			offs.push(all.len() as i32);
		}
		add(&mut e, "item.".into(), Kind::Item, all);
		e.item_offsets = Some(offs);
	}
	e
}

#[derive(Default, Debug)]
pub struct Diff {
	/// field placement / width / endianness / version gating (C03)
	pub fields: Vec<String>,
	/// rows, presence, item grouping, column lengths (C04)
	pub structure: Vec<String>,
}

impl Diff {
	pub fn is_empty(&self) -> bool {
		self.fields.is_empty() && self.structure.is_empty()
	}
}

/// Compare observed columns with the expectation. `what` names the
/// observation route. At most `max` messages per category.
pub fn diff_expected(e: &Expected, c: &Cols, what: &str, max: usize) -> Diff {
	let mut d = Diff::default();
	if c.rows != e.rows {
		d.structure.push(format!("{}: rows {} != occurrences {}", what, c.rows, e.rows));
	}
	for (path, (ty, col)) in &e.leaves {
		match c.leaves.get(path) {
			None => d.fields.push(format!("{}: field {} missing (spec says present for this version)", what, path)),
			Some((t2, vals)) => {
				if t2 != ty {
					d.fields.push(format!("{}: field {} has type {} want {}", what, path, t2, ty));
				}
				if vals.len() != col.len() {
					d.structure.push(format!("{}: column {} has {} entries want {}", what, path, vals.len(), col.len()));
				}
				for (i, (want, got)) in col.iter().zip(vals.iter()).enumerate() {
					if let Some(w) = want {
						if w != got {
							let msg = format!("{}: {}[{}] = {:#x} want {:#x}", what, path, i, got, w);
							// Misplacement (C04) is only claimed on strong evidence: the whole
							// record observed at row i (every leaf of this character's pre/post, or
							// of start/end) equals the record expected at another row j, or the
							// record expected for another character at row i.
							if let Some(m) = misplacement(e, c, path, i) {
								d.structure.push(format!("{}: {} ({})", what, m, msg));
							}
							d.fields.push(msg);
							break;
						}
					}
				}
			}
		}
		if d.fields.len() >= max && d.structure.len() >= max {
			break;
		}
	}
	for path in c.leaves.keys() {
		if !e.leaves.contains_key(path) {
			d.fields.push(format!("{}: field {} present but spec says absent for this version", what, path));
		}
	}
	for (path, pres) in &e.presence {
		let got: Vec<bool> = match c.validity.get(path) {
			Some(Some(v)) => v.clone(),
			Some(None) => vec![true; c.rows],
			None => {
				d.structure.push(format!("{}: no struct {}", what, path));
				continue;
			}
		};
		if &got != pres {
			let i = got.iter().zip(pres.iter()).position(|(a, b)| a != b).unwrap_or(got.len().min(pres.len()));
			d.structure.push(format!("{}: presence of {} differs at row {} (got {} bits, want {})", what, path, i, got.len(), pres.len()));
		}
	}
	// characters that are not occupied must not have columns at all
	for path in c.validity.keys() {
		if path.starts_with("ports.") && (path.ends_with(".leader") || path.ends_with(".follower")) && !e.presence.contains_key(path) {
			d.structure.push(format!("{}: columns exist for unoccupied character {}", what, path));
		}
	}
	if e.item_offsets != c.item_offsets {
		let head = |o: &Option<Vec<i32>>| o.as_ref().map(|o| (o.len(), o.iter().take(12).cloned().collect::<Vec<_>>()));
		d.structure.push(format!("{}: item offsets (len, head) {:?} want {:?}", what, head(&c.item_offsets), head(&e.item_offsets)));
	}
	// every validity bitmap that exists has one bit per row (or per item)
	for (path, v) in &c.validity {
		if let Some(bits) = v {
			let want = if path.starts_with("item") { c.leaves.get("item.type").map_or(0, |x| x.1.len()) } else { c.rows };
			if bits.len() != want {
				d.structure.push(format!("{}: validity of {} has {} bits want {}", what, path, bits.len(), want));
			}
		}
	}
	d.fields.truncate(max);
	d.structure.truncate(max);
	d
}

/// Strong-evidence test for a misplaced record; see `diff_expected`.
fn misplacement(e: &Expected, c: &Cols, path: &str, i: usize) -> Option<String> {
	// record prefix = path up to and including ".pre." / ".post." / "start." / "end."
	let prefix = if let Some(k) = path.find(".pre.") {
		&path[..k + 5]
	} else if let Some(k) = path.find(".post.") {
		&path[..k + 6]
	} else if path.starts_with("start.") {
		"start."
	} else if path.starts_with("end.") {
		"end."
	} else {
		return None;
	};
	let leaves: Vec<&String> = e.leaves.keys().filter(|p| p.starts_with(prefix)).collect();
	if leaves.len() < 2 {
		return None;
	}
	let observed: Vec<Option<u64>> = leaves.iter().map(|p| c.leaves.get(*p).and_then(|x| x.1.get(i).copied())).collect();
	if observed.iter().any(|x| x.is_none()) {
		return None;
	}
	// another row of the same record
	for j in 0..e.rows {
		if j != i && leaves.iter().zip(observed.iter()).all(|(p, o)| e.leaves[*p].1.get(j).copied().flatten() == *o) {
			return Some(format!("row misplacement: the record expected at row {} of {} was found at row {}", j, prefix.trim_end_matches('.'), i));
		}
	}
	// the same row of another character's record of the same kind
	if prefix.starts_with("ports.") {
		let kind = if prefix.ends_with(".pre.") { ".pre." } else { ".post." };
		let mut others: Vec<String> = e.leaves.keys().filter(|p| p.contains(kind) && !p.starts_with(prefix)).map(|p| p[..p.find(kind).unwrap() + kind.len()].to_string()).collect();
		others.sort();
		others.dedup();
		for o in others {
			let same = leaves.iter().zip(observed.iter()).all(|(p, ob)| {
				let q = format!("{}{}", o, &p[prefix.len()..]);
				e.leaves.get(&q).and_then(|x| x.1.get(i).copied().flatten()) == *ob
			});
			if same {
				return Some(format!("port misplacement: the record expected for {} at row {} was found under {}", o.trim_end_matches('.'), i, prefix.trim_end_matches('.')));
			}
		}
	}
	None
}

/// Expected Arrow schema, rendered like `schema_lines`, from the spec tables.
pub fn expected_schema(v: V, chars: &[(u8, bool)]) -> Vec<String> {
	fn emit_struct(name: &str, fields: &[(String, &'static str)], prefix: &str, out: &mut Vec<String>) {
		// group dotted paths by first component, in order
		let mut order: Vec<String> = vec![];
		for (p, _) in fields {
			let head = p.split('.').next().unwrap().to_string();
			if !order.contains(&head) {
				order.push(head);
			}
		}
		out.push(format!("{}: Struct[{}]", name, order.len()));
		for head in order {
			let subs: Vec<(String, &'static str)> = fields.iter().filter(|(p, _)| p.split('.').next().unwrap() == head).map(|(p, t)| (p[head.len()..].trim_start_matches('.').to_string(), *t)).collect();
			if subs.len() == 1 && subs[0].0.is_empty() {
				out.push(format!("{}{}: {}", prefix, head, subs[0].1));
			} else {
				emit_struct(&format!("{}{}", prefix, head), &subs, &format!("{}{}.", prefix, head), out);
			}
		}
	}
	let tbl = |k: Kind| -> Vec<(String, &'static str)> { k.fields(v).iter().map(|f| (f.path.to_string(), f.ty.arrow_name())).collect() };
	let mut out = vec![];
	let mut n = 2;
	if Kind::FStart.exists(v) {
		n += 1;
	}
	if Kind::Item.exists(v) {
		n += 2;
	}
	out.push(format!("<root>: Struct[{}]", n));
	out.push("id: Int32".to_string());
	let ports: Vec<u8> = {
		let mut p: Vec<u8> = chars.iter().map(|c| c.0).collect();
		p.dedup();
		p
	};
	out.push(format!("ports: Struct[{}]", ports.len()));
	for p in ports {
		let ics = chars.contains(&(p, true));
		let base = format!("ports.{}", port_name(p));
		out.push(format!("{}: Struct[{}]", base, if ics { 2 } else { 1 }));
		for who in ["leader", "follower"] {
			if who == "follower" && !ics {
				continue;
			}
			out.push(format!("{}.{}: Struct[2]", base, who));
			emit_struct(&format!("{}.{}.pre", base, who), &tbl(Kind::Pre), &format!("{}.{}.pre.", base, who), &mut out);
			emit_struct(&format!("{}.{}.post", base, who), &tbl(Kind::Post), &format!("{}.{}.post.", base, who), &mut out);
		}
	}
	if Kind::FStart.exists(v) {
		emit_struct("start", &tbl(Kind::FStart), "start.", &mut out);
	}
	if Kind::Item.exists(v) {
		emit_struct("end", &tbl(Kind::FEnd), "end.", &mut out);
		out.push("item: List<item>".to_string());
		emit_struct("item", &tbl(Kind::Item), "item.", &mut out);
	}
	out
}

pub fn occupied_chars(start_block: &[u8]) -> Vec<(u8, bool)> {
	let mut c = vec![];
	for p in 0..4u8 {
		let o = spec::start::PLAYERS + spec::start::PLAYER_STRIDE * p as usize;
		if start_block[o + spec::start::P_TYPE] <= 2 {
			c.push((p, false));
			if start_block[o + spec::start::P_CHAR] == 14 {
				c.push((p, true));
			}
		}
	}
	c
}
