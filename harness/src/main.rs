#![allow(dead_code)]
mod common;
mod driver;
mod gen;
mod iofault;
mod jsonord;
mod lane;
mod model;
mod monitors;
mod mutate;
mod rng;
mod selfcheck;
mod sjis;
mod spec;
mod stress;
mod tarx;
mod view;

use driver::Tier;

fn usage() -> ! {
	eprintln!("usage: pvh run <ID> <quick|thorough> | replay <desc.json> | selfcheck | list");
	std::process::exit(2);
}

fn main() {
	let args: Vec<String> = std::env::args().collect();
	// panics of the library under test are captured by driver::guard, not printed
	driver::install_panic_hook();
	if args.len() < 2 {
		usage();
	}
	let seed: u64 = std::env::var("VERIF_SEED").ok().and_then(|s| s.trim().parse::<i64>().ok()).map(|x| x as u64).unwrap_or(1);
	match args[1].as_str() {
		"list" => {
			for m in monitors::IDS {
				println!("{}", m);
			}
		}
		"selfcheck" => {
			if let Err(e) = selfcheck::run(true) {
				println!("HARNESS-ERROR selfcheck: {}", e);
				std::process::exit(2);
			}
		}
		"run" => {
			if args.len() < 4 {
				usage();
			}
			let tier = match args[3].as_str() {
				"quick" => Tier::Quick,
				"thorough" => Tier::Thorough,
				_ => usage(),
			};
			if let Err(e) = selfcheck::run(false) {
				println!("HARNESS-ERROR selfcheck: {}", e);
				std::process::exit(2);
			}
			let Some(m) = monitors::get(&args[2]) else {
				eprintln!("unknown check {}", args[2]);
				std::process::exit(2);
			};
			std::process::exit(driver::run_check(m.as_ref(), tier, seed));
		}
		"worker" => {
			// worker <ID> <tier> <seed> <shard> <nshards> <from>
			let m = monitors::get(&args[2]).expect("monitor");
			let tier = if args[3] == "thorough" { Tier::Thorough } else { Tier::Quick };
			let p = |i: usize| args[i].parse::<u64>().expect("number");
			driver::worker_main(m.as_ref(), tier, p(4), p(5) as usize, p(6) as usize, p(7) as usize);
		}
		"write-slpp" => {
			// write-slpp <seed index> <none|lz4|zstd> <outfile>: used by C18 to write from another process
			let seeds = monitors::c06::seeds();
			let i: usize = args[2].parse().expect("index");
			let comp = match args[3].as_str() {
				"lz4" => common::Comp::Lz4,
				"zstd" => common::Comp::Zstd,
				_ => common::Comp::None,
			};
			let g = common::slp_read(&seeds[i].bytes, false, true).ok().expect("seed reads");
			match common::slpp_write(g, comp) {
				Ok(a) => std::fs::write(&args[4], a).expect("write file"),
				Err(_) => std::process::exit(3),
			}
		}
		"classify" => {
			// classify <file>: judge one input with the C06 monitors (all modes + .slpp reader)
			driver::limit_address_space(2 << 30);
			std::process::exit(monitors::c06::classify(std::path::Path::new(&args[2])));
		}
		"dump-seeds" => {
			// dump-seeds <dir>: write the C06 seed replays, and mutated variants as a fuzzing corpus
			let dir = std::path::PathBuf::from(&args[2]);
			std::fs::create_dir_all(&dir).expect("mkdir");
			let mut n = 0;
			for (i, s) in monitors::c06::seeds().iter().enumerate() {
				std::fs::write(dir.join(format!("seed-{:02}.slp", i)), &s.bytes).unwrap();
				n += 1;
				for (j, op) in mutate::OPS.iter().enumerate() {
					let mut rng = rng::Rng::derive(seed, (i * 100 + j) as u64);
					let (b, _) = mutate::apply(op, &s.bytes, &s.model, &mut rng);
					if b.len() <= 16384 {
						std::fs::write(dir.join(format!("mut-{:02}-{:02}.slp", i, j)), &b).unwrap();
						n += 1;
					}
				}
			}
			println!("wrote {} corpus files to {}", n, dir.display());
		}
		"lane" => {
			// lane <name> <shard> <nshards> [c]
			let p = |i: usize| args.get(i).and_then(|s| s.parse::<usize>().ok()).unwrap_or(0);
			std::process::exit(lane::main(&args[2], p(3), p(4).max(1), args.get(5).map_or(false, |s| s == "c")));
		}
		"replay" | "replay-child" => {
			let s = std::fs::read_to_string(&args[2]).expect("read descriptor");
			let desc: serde_json::Value = serde_json::from_str(&s).expect("descriptor json");
			let m = monitors::get(desc["property"].as_str().unwrap_or("")).expect("monitor");
			std::process::exit(driver::replay(m.as_ref(), &desc, args[1] == "replay-child"));
		}
		_ => usage(),
	}
}
