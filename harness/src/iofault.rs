//! Instrumented byte source: counts, fragments and injects faults into reads.
//! This is the "schedule / fault injector" for a single-threaded parser: the
//! only nondeterminism its environment has is how `read` splits the bytes and
//! where it fails.

use crate::rng::Rng;
use std::io::{self, Read, Seek, SeekFrom};
use std::sync::atomic::{AtomicBool, AtomicUsize, Ordering::Relaxed};
use std::sync::Arc;

#[derive(Clone, Debug)]
pub enum Policy {
	/// give whatever the caller asks for
	Whole,
	/// at most k bytes per call
	Fixed(usize),
	/// random 1..=k bytes per call
	Random(usize, u64),
	/// two pieces: reads never cross offset p
	Split(usize),
	/// whole reads, but every k-th call returns `ErrorKind::Interrupted` without consuming
	/// anything (a signal arrived): callers must retry, the result must be unaffected
	Interrupt(usize),
}

impl Policy {
	pub fn name(&self) -> String {
		match self {
			Policy::Whole => "whole".into(),
			Policy::Fixed(k) => format!("fixed{}", k),
			Policy::Random(k, _) => format!("random1..{}", k),
			Policy::Split(_) => "split".into(),
			Policy::Interrupt(k) => format!("interrupt-every-{}", k),
		}
	}
}

#[derive(Debug, Default)]
pub struct Stats {
	pub bytes: AtomicUsize,
	pub calls: AtomicUsize,
	pub eof_polls: AtomicUsize,
	pub seeks: AtomicUsize,
	pub fault_delivered: AtomicBool,
	pub max_pos: AtomicUsize,
	/// EOF was polled more than EOF_POLL_LIMIT times: a non-consuming loop
	pub spun: AtomicBool,
	pub interrupts: AtomicUsize,
}

pub const EOF_POLL_LIMIT: usize = 4096;

impl Stats {
	pub fn bytes(&self) -> usize {
		self.bytes.load(Relaxed)
	}
	pub fn calls(&self) -> usize {
		self.calls.load(Relaxed)
	}
	pub fn eof_polls(&self) -> usize {
		self.eof_polls.load(Relaxed)
	}
	pub fn max_pos(&self) -> usize {
		self.max_pos.load(Relaxed)
	}
	pub fn spun(&self) -> bool {
		self.spun.load(Relaxed)
	}
	pub fn fault_delivered(&self) -> bool {
		self.fault_delivered.load(Relaxed)
	}
}

pub struct Src {
	data: Arc<Vec<u8>>,
	pos: usize,
	policy: Policy,
	rng: Rng,
	/// the k-th read call (0-based) fails with this kind
	fault: Option<(usize, io::ErrorKind)>,
	/// every seek fails (an unseekable stream behind a Seek facade)
	pub fail_seek: bool,
	pub stats: Arc<Stats>,
}

impl Src {
	pub fn new(data: Arc<Vec<u8>>, policy: Policy) -> Self {
		let seed = match &policy {
			Policy::Random(_, s) => *s,
			_ => 0,
		};
		Src { data, pos: 0, policy, rng: Rng::new(seed), fault: None, fail_seek: false, stats: Arc::new(Stats::default()) }
	}
	pub fn of(data: &[u8]) -> Self {
		Src::new(Arc::new(data.to_vec()), Policy::Whole)
	}
	/// Put `n` junk bytes in front of the data and start reading after them: the
	/// stream is then not at position 0 when the library gets it.
	pub fn with_prefix(mut self, n: usize) -> Self {
		let mut d = vec![0xA5u8; n];
		d.extend_from_slice(&self.data);
		self.data = Arc::new(d);
		self.pos = n;
		self
	}
	pub fn with_failing_seek(mut self) -> Self {
		self.fail_seek = true;
		self
	}
	pub fn with_fault(mut self, call: usize, kind: io::ErrorKind) -> Self {
		self.fault = Some((call, kind));
		self
	}
	pub fn stats(&self) -> Arc<Stats> {
		self.stats.clone()
	}
}

impl Read for Src {
	fn read(&mut self, buf: &mut [u8]) -> io::Result<usize> {
		let call = self.stats.calls.fetch_add(1, Relaxed);
		if let Some((k, kind)) = self.fault {
			if call == k {
				self.stats.fault_delivered.store(true, Relaxed);
				return Err(io::Error::new(kind, "injected fault"));
			}
		}
		if let Policy::Interrupt(k) = &self.policy {
			if call % *k == *k - 1 {
				self.stats.interrupts.fetch_add(1, Relaxed);
				return Err(io::Error::new(io::ErrorKind::Interrupted, "injected EINTR"));
			}
		}
		if buf.is_empty() {
			return Ok(0);
		}
		let left = self.data.len().saturating_sub(self.pos);
		if left == 0 {
			let polls = self.stats.eof_polls.fetch_add(1, Relaxed);
			if polls > EOF_POLL_LIMIT {
				// logical evidence of a loop that does not consume input; break it
				self.stats.spun.store(true, Relaxed);
				return Err(io::Error::new(io::ErrorKind::Other, "harness: EOF polled too often"));
			}
			return Ok(0);
		}
		let mut n = buf.len().min(left);
		match &self.policy {
			Policy::Whole | Policy::Interrupt(_) => {}
			Policy::Fixed(k) => n = n.min(*k),
			Policy::Random(k, _) => n = n.min(1 + self.rng.below(*k)),
			Policy::Split(p) => {
				if self.pos < *p {
					n = n.min(*p - self.pos)
				}
			}
		}
		buf[..n].copy_from_slice(&self.data[self.pos..self.pos + n]);
		self.pos += n;
		self.stats.bytes.fetch_add(n, Relaxed);
		self.stats.max_pos.fetch_max(self.pos, Relaxed);
		Ok(n)
	}
}

impl Seek for Src {
	fn seek(&mut self, pos: SeekFrom) -> io::Result<u64> {
		self.stats.seeks.fetch_add(1, Relaxed);
		if self.fail_seek {
			self.stats.fault_delivered.store(true, Relaxed);
			return Err(io::Error::new(io::ErrorKind::Other, "injected seek failure"));
		}
		let new: i128 = match pos {
			SeekFrom::Start(p) => p as i128,
			SeekFrom::Current(d) => self.pos as i128 + d as i128,
			SeekFrom::End(d) => self.data.len() as i128 + d as i128,
		};
		if new < 0 {
			return Err(io::Error::new(io::ErrorKind::InvalidInput, "seek before start"));
		}
		// like Cursor: seeking beyond the end is allowed, reads then return 0
		self.pos = new as usize;
		Ok(self.pos as u64)
	}
}

/// Instrumented byte sink: accepts at most `max_per_call` bytes per `write`
/// call (a legitimate short write) and/or fails once `fail_after` bytes have
/// been accepted (disk full, closed pipe). Counts calls.
pub struct Sink {
	pub buf: Vec<u8>,
	pub max_per_call: usize,
	pub fail_after: Option<usize>,
	pub calls: usize,
	pub failed: bool,
	/// every k-th write call returns Interrupted (0 = never)
	pub interrupt_every: usize,
}

impl Sink {
	pub fn short(max_per_call: usize) -> Sink {
		Sink { buf: vec![], max_per_call: max_per_call.max(1), fail_after: None, calls: 0, failed: false, interrupt_every: 0 }
	}
	pub fn failing(after: usize) -> Sink {
		Sink { buf: vec![], max_per_call: usize::MAX, fail_after: Some(after), calls: 0, failed: false, interrupt_every: 0 }
	}
}

impl io::Write for Sink {
	fn write(&mut self, data: &[u8]) -> io::Result<usize> {
		self.calls += 1;
		if self.interrupt_every > 0 && self.calls % self.interrupt_every == 0 {
			return Err(io::Error::new(io::ErrorKind::Interrupted, "injected EINTR"));
		}
		if data.is_empty() {
			return Ok(0);
		}
		let mut n = data.len().min(self.max_per_call);
		if let Some(limit) = self.fail_after {
			let room = limit.saturating_sub(self.buf.len());
			if room == 0 {
				self.failed = true;
				return Err(io::Error::new(io::ErrorKind::Other, "injected sink failure"));
			}
			n = n.min(room);
		}
		self.buf.extend_from_slice(&data[..n]);
		Ok(n)
	}
	fn flush(&mut self) -> io::Result<()> {
		Ok(())
	}
}
