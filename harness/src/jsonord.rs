//! Tiny order-aware JSON parser (objects keep key order and duplicates), so
//! that the harness never depends on serde_json's map ordering feature.

#[derive(Clone, Debug, PartialEq)]
pub enum J {
	Null,
	Bool(bool),
	Num(String),
	Str(String),
	Arr(Vec<J>),
	Obj(Vec<(String, J)>),
}

struct P<'a> {
	b: &'a [u8],
	i: usize,
}

impl<'a> P<'a> {
	fn ws(&mut self) {
		while self.i < self.b.len() && matches!(self.b[self.i], b' ' | b'\n' | b'\t' | b'\r') {
			self.i += 1;
		}
	}
	fn eat(&mut self, c: u8) -> Result<(), String> {
		self.ws();
		if self.i < self.b.len() && self.b[self.i] == c {
			self.i += 1;
			Ok(())
		} else {
			Err(format!("expected {:?} at {}", c as char, self.i))
		}
	}
	fn string(&mut self) -> Result<String, String> {
		self.eat(b'"')?;
		let mut out: Vec<u16> = vec![];
		let mut s = String::new();
		let flush = |out: &mut Vec<u16>, s: &mut String| -> Result<(), String> {
			if !out.is_empty() {
				s.push_str(&String::from_utf16(out).map_err(|e| e.to_string())?);
				out.clear();
			}
			Ok(())
		};
		loop {
			if self.i >= self.b.len() {
				return Err("unterminated string".into());
			}
			let c = self.b[self.i];
			self.i += 1;
			match c {
				b'"' => {
					flush(&mut out, &mut s)?;
					return Ok(s);
				}
				b'\\' => {
					let e = *self.b.get(self.i).ok_or("bad escape")?;
					self.i += 1;
					let ch = match e {
						b'"' => '"',
						b'\\' => '\\',
						b'/' => '/',
						b'b' => '\u{8}',
						b'f' => '\u{c}',
						b'n' => '\n',
						b'r' => '\r',
						b't' => '\t',
						b'u' => {
							let h = std::str::from_utf8(self.b.get(self.i..self.i + 4).ok_or("short \\u")?).map_err(|e| e.to_string())?;
							let v = u16::from_str_radix(h, 16).map_err(|e| e.to_string())?;
							self.i += 4;
							out.push(v);
							continue;
						}
						_ => return Err("unknown escape".into()),
					};
					flush(&mut out, &mut s)?;
					s.push(ch);
				}
				_ => {
					flush(&mut out, &mut s)?;
					// copy one UTF-8 scalar
					let start = self.i - 1;
					let len = if c < 0x80 {
						1
					} else if c >> 5 == 0b110 {
						2
					} else if c >> 4 == 0b1110 {
						3
					} else {
						4
					};
					let chunk = self.b.get(start..start + len).ok_or("short utf8")?;
					s.push_str(std::str::from_utf8(chunk).map_err(|e| e.to_string())?);
					self.i = start + len;
				}
			}
		}
	}
	fn value(&mut self, depth: usize) -> Result<J, String> {
		if depth > 4000 {
			return Err("too deep".into());
		}
		self.ws();
		match self.b.get(self.i) {
			None => Err("eof".into()),
			Some(b'{') => {
				self.i += 1;
				let mut m = vec![];
				self.ws();
				if self.b.get(self.i) == Some(&b'}') {
					self.i += 1;
					return Ok(J::Obj(m));
				}
				loop {
					self.ws();
					let k = self.string()?;
					self.eat(b':')?;
					let v = self.value(depth + 1)?;
					m.push((k, v));
					self.ws();
					match self.b.get(self.i) {
						Some(b',') => self.i += 1,
						Some(b'}') => {
							self.i += 1;
							return Ok(J::Obj(m));
						}
						_ => return Err(format!("expected , or }} at {}", self.i)),
					}
				}
			}
			Some(b'[') => {
				self.i += 1;
				let mut a = vec![];
				self.ws();
				if self.b.get(self.i) == Some(&b']') {
					self.i += 1;
					return Ok(J::Arr(a));
				}
				loop {
					a.push(self.value(depth + 1)?);
					self.ws();
					match self.b.get(self.i) {
						Some(b',') => self.i += 1,
						Some(b']') => {
							self.i += 1;
							return Ok(J::Arr(a));
						}
						_ => return Err(format!("expected , or ] at {}", self.i)),
					}
				}
			}
			Some(b'"') => Ok(J::Str(self.string()?)),
			Some(b't') if self.b[self.i..].starts_with(b"true") => {
				self.i += 4;
				Ok(J::Bool(true))
			}
			Some(b'f') if self.b[self.i..].starts_with(b"false") => {
				self.i += 5;
				Ok(J::Bool(false))
			}
			Some(b'n') if self.b[self.i..].starts_with(b"null") => {
				self.i += 4;
				Ok(J::Null)
			}
			Some(c) if *c == b'-' || c.is_ascii_digit() => {
				let s = self.i;
				while self.i < self.b.len() && matches!(self.b[self.i], b'-' | b'+' | b'.' | b'e' | b'E' | b'0'..=b'9') {
					self.i += 1;
				}
				Ok(J::Num(String::from_utf8_lossy(&self.b[s..self.i]).to_string()))
			}
			Some(c) => Err(format!("unexpected byte {:#x} at {}", c, self.i)),
		}
	}
}

pub fn parse(b: &[u8]) -> Result<J, String> {
	let mut p = P { b, i: 0 };
	let v = p.value(0)?;
	p.ws();
	if p.i != b.len() {
		return Err(format!("trailing bytes at {}", p.i));
	}
	Ok(v)
}

/// Convert a metadata tree to the ordered JSON it must be stored as.
pub fn from_meta(m: &crate::model::Meta) -> J {
	J::Obj(
		m.iter()
			.map(|(k, v)| {
				(
					k.clone(),
					match v {
						crate::model::MVal::Str(s) => J::Str(s.clone()),
						crate::model::MVal::Int(i) => J::Num(i.to_string()),
						crate::model::MVal::Map(mm) => from_meta(mm),
					},
				)
			})
			.collect(),
	)
}

/// Order-insensitive comparison with a serde_json value (numbers by text).
pub fn eq_serde(j: &J, v: &serde_json::Value) -> bool {
	use serde_json::Value as V;
	match (j, v) {
		(J::Null, V::Null) => true,
		(J::Bool(a), V::Bool(b)) => a == b,
		(J::Num(a), V::Number(b)) => {
			let bs = b.to_string();
			*a == bs || a.parse::<f64>().ok() == bs.parse::<f64>().ok()
		}
		(J::Str(a), V::String(b)) => a == b,
		(J::Arr(a), V::Array(b)) => a.len() == b.len() && a.iter().zip(b.iter()).all(|(x, y)| eq_serde(x, y)),
		(J::Obj(a), V::Object(b)) => a.len() == b.len() && a.iter().all(|(k, x)| b.get(k).map_or(false, |y| eq_serde(x, y))),
		_ => false,
	}
}
