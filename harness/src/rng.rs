//! Small deterministic PRNG (splitmix64) so every case is reproducible from
//! (VERIF_SEED, case index).

#[derive(Clone, Debug)]
pub struct Rng(pub u64);

impl Rng {
	pub fn new(seed: u64) -> Self {
		Rng(seed.wrapping_mul(0x9E3779B97F4A7C15) ^ 0xD1B54A32D192ED03)
	}
	pub fn derive(seed: u64, stream: u64) -> Self {
		let mut r = Rng::new(seed ^ stream.wrapping_mul(0xA24BAED4963EE407));
		r.next();
		r
	}
	pub fn next(&mut self) -> u64 {
		self.0 = self.0.wrapping_add(0x9E3779B97F4A7C15);
		let mut z = self.0;
		z = (z ^ (z >> 30)).wrapping_mul(0xBF58476D1CE4E5B9);
		z = (z ^ (z >> 27)).wrapping_mul(0x94D049BB133111EB);
		z ^ (z >> 31)
	}
	pub fn byte(&mut self) -> u8 {
		(self.next() >> 32) as u8
	}
	pub fn below(&mut self, n: usize) -> usize {
		if n == 0 {
			0
		} else {
			(self.next() % n as u64) as usize
		}
	}
	pub fn range(&mut self, lo: usize, hi_incl: usize) -> usize {
		lo + self.below(hi_incl - lo + 1)
	}
	pub fn chance(&mut self, num: usize, den: usize) -> bool {
		self.below(den) < num
	}
	pub fn pick<'a, T>(&mut self, xs: &'a [T]) -> &'a T {
		&xs[self.below(xs.len())]
	}
	pub fn fill(&mut self, buf: &mut [u8]) {
		for b in buf.iter_mut() {
			*b = self.byte();
		}
	}
	pub fn bytes(&mut self, n: usize) -> Vec<u8> {
		let mut v = vec![0; n];
		self.fill(&mut v);
		v
	}
}
