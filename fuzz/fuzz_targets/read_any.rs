#![no_main]
//! Coverage-guided deepening of C06: any byte string, every reader option
//! combination and the incremental API. The oracle is libFuzzer's own crash
//! detection (panic = abort, ASan report, timeout, OOM).
use libfuzzer_sys::fuzz_target;
use peppi::io::slippi::de::{self, Opts};
use std::io::{Cursor, Read};

/// Formats every log record and drops it, so that log-macro arguments inside the
/// library are evaluated while fuzzing.
struct DiscardLogger;
impl log::Log for DiscardLogger {
	fn enabled(&self, _: &log::Metadata) -> bool {
		true
	}
	fn log(&self, record: &log::Record) {
		let _ = format!("{}", record.args());
	}
	fn flush(&self) {}
}
static LOGGER: DiscardLogger = DiscardLogger;
static INIT: std::sync::Once = std::sync::Once::new();

fn incremental(data: &[u8]) -> Option<()> {
	let mut r = Cursor::new(data);
	let raw_len = de::parse_header(&mut r, None).ok()?;
	let mut st = de::parse_start(&mut r, None).ok()?;
	let mut n = 0;
	while raw_len == 0 || st.bytes_read() < raw_len as usize {
		if de::parse_event(&mut r, &mut st, None).ok()? == 0x39 {
			break;
		}
		n += 1;
		if n > 100_000 {
			break;
		}
	}
	let mut b = [0u8; 1];
	r.read_exact(&mut b).ok()?;
	if b[0] == 0x55 {
		de::parse_metadata(&mut r, &mut st, None).ok()?;
	}
	Some(())
}

fuzz_target!(|data: &[u8]| {
	INIT.call_once(|| {
		let _ = log::set_logger(&LOGGER);
	});
	// logging on for inputs of odd length, off for even ones
	log::set_max_level(if data.len() % 2 == 1 { log::LevelFilter::Trace } else { log::LevelFilter::Off });
	for (skip, hash) in [(false, false), (true, true), (true, false), (false, true)] {
		let opts = Opts { skip_frames: skip, compute_hash: hash, debug: None };
		let _ = peppi::io::slippi::read(Cursor::new(data), Some(&opts));
	}
	let _ = incremental(data);
	// NOTE: the .slpp reader is deliberately not fuzzed here: C06 quantifies over
	// byte strings offered as .slp files (C07 covers truncated .slpp archives).
});
